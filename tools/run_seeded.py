#!/usr/bin/env python3
"""tools/run_seeded.py [--tier quick|thorough] [--all-props] ID...   (IDs = directory names under /verif/seeded, default all)
For each seeded change: verify it in a scratch worktree (baseline demo passes; with patch: test-suite passes, demo fails),
run the property's check (and optionally every check) on that patched worktree (CBI_REPO=<worktree>; with --in-place the
patch is applied to /repo itself and reverted afterwards), record the outcome in meta.json."""
import json, os, subprocess, sys, shutil, tempfile
V = os.path.dirname(os.path.dirname(os.path.abspath(__file__)))
PY = "/venv/bin/python"
args = sys.argv[1:]
tier = "quick"; allprops = False; props_override = None; inplace = False
while args and args[0].startswith("--"):
    a = args.pop(0)
    if a == "--tier": tier = args.pop(0)
    elif a == "--all-props": allprops = True
    elif a == "--props": props_override = args.pop(0).split(",")
    elif a == "--in-place": inplace = True      # apply the patch to /repo itself (git apply / checkout) instead of a scratch worktree
ids = args or sorted(os.listdir(os.path.join(V, "seeded")))
def sh(cmd, cwd=None, env=None):
    return subprocess.run(cmd, cwd=cwd, env=env, capture_output=True, text=True)
for sid in ids:
    d = os.path.join(V, "seeded", sid)
    meta = json.load(open(os.path.join(d, "meta.json")))
    if str(meta.get("status", "")).startswith("neutralised"):
        print(f"{sid}: skipped ({meta['status'][:60]}...)"); continue
    wt = tempfile.mkdtemp(prefix="cbimon-seeded-", dir="/tmp")
    os.rmdir(wt)
    sh(["git", "-C", "/repo", "worktree", "add", "-q", "--detach", wt, "HEAD"])
    res = {}
    try:
        env = dict(os.environ, PYTHONPATH=wt)
        b = sh([PY, os.path.join(d, "demo.py")], cwd=wt, env=env).returncode
        ap = sh(["git", "apply", os.path.join(d, "patch.diff")], cwd=wt)
        if ap.returncode:
            ap = sh(["git", "apply", "--3way", os.path.join(d, "patch.diff")], cwd=wt)
        if ap.returncode:
            print(f"{sid}: patch does not apply: {ap.stderr[:200]}"); continue
        t = sh([PY, "-m", "pytest", "-q", "-p", "no:cacheprovider"], cwd=wt, env=env).stdout.strip().splitlines()[-1]
        m = sh([PY, os.path.join(d, "demo.py")], cwd=wt, env=env).returncode
        ok = b == 0 and m != 0 and "failed" not in t and "error" not in t
        meta["verified"]["last"] = {"baseline_demo_rc": b, "patched_demo_rc": m, "tests": t}
        if not ok:
            print(f"{sid}: NOT a valid seeded change (baseline demo {b}, patched demo {m}, tests {t})"); continue
        diff = sh(["git", "diff"], cwd=wt).stdout
        try: os.unlink(os.path.join(wt, "cbi.log"))
        except OSError: pass
        props = props_override or ([f"C{i:02d}" for i in range(1, 19)] if allprops else [meta["property"]])
        if not inplace:
            # the checks analyse the patched scratch worktree (CBI_REPO); /repo itself is never touched
            for p in props:
                r = sh([os.path.join(V, "check"), p], cwd=V, env=dict(os.environ, VERIF_TIER=tier, CBI_REPO=wt))
                res[p] = r.returncode
    finally:
        sh(["git", "-C", "/repo", "worktree", "remove", "--force", wt])
        shutil.rmtree(wt, ignore_errors=True)
    if inplace:
        pfile = os.path.join("/dev/shm", f"seeded-{sid}.diff")
        open(pfile, "w").write(diff)
        if sh(["git", "-C", "/repo", "apply", pfile]).returncode:
            print(f"{sid}: cannot apply to /repo"); continue
        try:
            for p in props:
                r = sh([os.path.join(V, "check"), p], cwd=V, env=dict(os.environ, VERIF_TIER=tier))
                res[p] = r.returncode
        finally:
            sh(["git", "-C", "/repo", "checkout", "--", "."])
            try: os.unlink("/repo/cbi.log")
            except OSError: pass
    meta["detection"][tier] = res
    caught = [p for p, rc in res.items() if rc == 1]
    print(f"{sid}: {tier}: own={res.get(meta['property'])} caught_by={caught} others={ {p: rc for p, rc in res.items() if rc not in (0, 1)} }")
    json.dump(meta, open(os.path.join(d, "meta.json"), "w"), indent=1)
