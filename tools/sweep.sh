#!/bin/sh
# tools/sweep.sh "<seeds>" [tier] [props...] : run checks for several seeds, report non-zero exits
cd "$(dirname "$0")/.."
SEEDS="${1:-0 1 2 3 4}"; TIER="${2:-quick}"; shift 2 2>/dev/null
PROPS="${*:-C01 C02 C03 C04 C05 C06 C07 C08 C09 C10 C11 C12 C13 C14 C15 C16 C17 C18}"
mkdir -p /dev/shm/cbimon-sweep
for p in $PROPS; do for s in $SEEDS; do
  VERIF_SEED=$s VERIF_TIER=$TIER ./check $p > /dev/shm/cbimon-sweep/$p-$s.log 2>&1; rc=$?
  t=$(grep -o '[0-9.]*s$' /dev/shm/cbimon-sweep/$p-$s.log | tail -1)
  if [ $rc -ne 0 ]; then echo "$p seed=$s rc=$rc  (log /dev/shm/cbimon-sweep/$p-$s.log)"; grep -E "^(VIOLATION|INCONCLUSIVE)" /dev/shm/cbimon-sweep/$p-$s.log | cut -c1-300 | head -3; else echo "$p seed=$s ok $t"; fi
done; done
