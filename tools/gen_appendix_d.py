#!/usr/bin/env python3
"""Rewrites 'Appendix D' of DESIGN.md from /verif/seeded/*/meta.json."""
import glob, json, os, re
V = os.path.dirname(os.path.dirname(os.path.abspath(__file__)))
ADDED = {
 "C09-1": "sibling directories `root-old`, `root2`, `rootfiles/src` queried absolutely and relatively",
 "C07-1": "platform names that are substrings of each other (`cpu`/`cpu-avx512`, `p`/`pp`/`ppp`)",
 "C17-1": "literals containing `&` followed by blanks and `!`",
 "C17-2": "directives inside `&`-continued statements; every counted code line (not only markers) compared with `gfortran -E`",
 "C16-1": "all files get one mtime (stat signatures of same-size files coincide); filecmp cache cleared per case",
 "C13-2": "two entries of one platform in different build directories, both `-I.`, own `config.h` each",
 "C04-1": "X-macro pattern: the same `#include IMPL` directive reached twice with IMPL redefined in between",
 "C11-2": "multi-entry databases mixing `arguments` and `command` forms with coinciding printed text",
 "C10-1": "anchored directory pattern `/sub/` with a deeper directory of the same name",
 "C03-2": "headers whose `#define`s are evaluated by several translation units / platforms in one run",
 "C08-2": "conditions naming a macro defined in terms of a command-line macro (`#define LVLX LVL`, `-DLVL=k`)",
 "C14-2": "`-fopenmp` (mode) plus a macro given twice with different values on the command line",
 "C12-1": "(caught at first contact once the patch was rebased onto the repaired tree)",
 "C01-3": "block comment inside a directive whose first line ends in `*`; C05 vocabulary lines `#a /* c *`, `* d */ b`",
 "C01-4": "ISO-8859-1 bytes in comments (files written as latin-1)",
 "C04-4": "header including itself a bounded number of times under macro control",
 "C05-3": "vocabulary lines ending in two backslashes (`// x \\\\\\\\`, `\"a\\\\\\\\`)",
 "C08-4": "translation units with `.c`, `.cpp`, `.cc`, `.cu` extensions sharing headers",
 "C10-3": "patterns split between `-x` and `[codebase] exclude` in one run",
 "C11-3": "(already generated; the argv shrinker drifted into a known finding -> signature-preserving shrinkers)",
 "C12-4": "implicit options spelled with attached values (`-isystem/dir`, `-includefile`)",
 "C13-3": "relative `-I` naming a directory that exists in the root but not in the build directory",
 "C13-4": "white-space-only `command` strings among the skipped-entry kinds",
 "C14-3": "file symlinks (second name for a compiled file and a header) in the determinism code bases",
 "C14-4": "aliases whose extension belongs to another language (`f_alias.inc -> f.f90`, `u_alias.f90 -> u.c`)",
 "C18-3": "database entries with an unknown compiler *and* unknown options (two warnings expected)",
 # round 3 (first contact: 10 of 36)
 "C02-5": "identifiers spelled like C++ alternative tokens / keywords (`and`, `not`, `compl`, `new`, `L`, `u8` ...) in the E4 and random classes",
 "C04-5": "40% of the random forests have one header directory outside the analysis root (macros of its headers compared in the final macro table)",
 "C04-6": "one random forest in 16 carries an include chain 20..100 levels deep whose innermost header defines a macro the translation unit tests",
 "C05-5": "class LONG: physical lines of 8 KiB .. 200 K characters (identifier, comment, literal, directive, blanks) through FileParser",
 "C05-6": "CRLF copies for a third of all texts of every class, continuations included (was: random class, no backslash)",
 "C06-5": "unused files with CRLF line ends and with non-UTF-8 bytes (coverage.json ids are recomputed from the bytes)",
 "C06-6": "directory names containing dots (`lib-1.2/`, `v2.0/d.ir/`); 1500-line file (k notation of cbi-tree checked)",
 "C07-5": "platform names equal under lower()/casefold() (`GPU`/`gpu`/`Gpu`, `stra\u00dfe`/`STRASSE`) as table names and as a second rename",
 "C07-6": "`platforms=` passed as tuple, frozenset and dict keys view as well as set and list",
 "C08-5": "class H: 210..450 compile commands in one run, every one skipping a `#pragma once` header (long history)",
 "C08-6": "database entries spelled three ways (absolute / no `directory`, root-relative / relative `directory`) mixed in one database",
 "C09-5": "directories named `.git`, `.svn`, `.hg`, `CVS`, `node_modules`",
 "C09-6": "directories and files named `~`, `~root`, `$HOME`, `%TEMP%` queried by relative spellings",
 "C10-6": "exclude patterns that differ from existing names only in letter case (`*.H`, `/SRC/...`): nothing may be excluded",
 "C11-6": "`arguments` vectors whose values contain `~`, `$VAR`, `${VAR}`, `$(cmd)`, backquotes, globs, braces: taken literally; include paths of multi-entry databases compared",
 "C12-5": "compiler names with versions, triplets and dots (`gcc-4.8`, `x86_64-linux-gnu-g++-12.2`, `tool.v1` beside `tool`, unknown `cc0.exe`)",
 "C12-6": "alias chains of 8..33 links (valid, and closed into a long cycle)",
 "C13-5": "a search directory whose name contains a blank (`my inc`), `arguments` and `command` forms, attached and separate",
 "C14-5": "platform names differing only in letter case in the clustering sample (matrix label order compared across hash seeds)",
 "C14-6": "user-defined passes with their own search directories holding a same-named header; the order of the two enabling flags is a perturbation (C12 end-to-end also got per-pass include paths)",
 "C15-5": "an excluded header with a second name (file symlink) the pattern does not match: neither name may be a member",
 "C15-6": "two different headers whose names differ only in letter case, both included by one translation unit",
 "C16-6": "duplicate classes of 22..60 files, in the command-line sample too",
 "C17-5": "headers outside the code base included two levels deep from the Fortran file; their line classes compared with fscan",
 "C17-6": "continued character literals with blanks after `&` and comment / blank lines between the halves (fscan extended per F2018 6.3.2.4)",
 "C18-5": "one case in 6 puts the dangling includes at the bottom of an include chain 40..100 levels deep",
 "C18-6": "database-level warnings are compared by content (every unknown flag, the compiler name, the file), with flag lists of about 250 characters",
 # round 4 (first contact: 4 of 36)
 "C01-7": "one random program in 7 includes itself once (first pass defines SELFPASS, nested pass takes the #else branch)",
 "C01-8": "null directives (`#`, `  #`, `# /* c */`) and other directives that select nothing (#pragma, #line, #ident) sprinkled at every nesting level",
 "C02-7": "identifiers with letters outside ASCII (`Z\u00c4HLER`, `gr\u00f6\u00dfe`, `\u00c9T\u00c9`, `\u03c0`) as macros, as leftover identifiers and under `defined`",
 "C02-8": "bare names of function-like macros (`#if FL`, `FL + FL2 == 0`) next to object-like ones",
 "C03-7": "`-D` definitions go through the real command-line parser, some preceded by `-U` of the same name and by unmodelled options",
 "C03-8": "`, ## __VA_ARGS__` corpus entries (empty, absent, one and several variable arguments; via #if too); this exposed a genuine defect, repaired in 9e74938, and the patch was rebased",
 "C04-7": "a header that is nothing but its include guard, included, guard #undef'ed and a mode macro defined, included again (twice)",
 "C04-8": "a directory named like a header in a search directory that lacks the header file (every fourth random forest)",
 "C05-7": "a member header with a C extension first reached through an #include in a free-form Fortran file (the only compile command)",
 "C05-8": "file names cycle through all 18 extensions of the C family (was: always `.c`)",
 "C06-7": "\u2014 (caught at first contact: platform name pool has mixed-case names since round 2)",
 "C07-7": "class `clustering`: `report.clustering()` on tables with 2..8 platforms, every printed matrix cell and the label order compared",
 "C07-8": "the position of the dashed 'Average' marker is read from the live matplotlib figure and compared with the reference divergence",
 "C08-7": "class S: 2..5 nvcc commands in one run whose architecture options replace the default pass, both orders, expectation from ccmodel + gcc per pass",
 "C08-8": "class S: one source compiled from 2..4 build directories with identical arguments (`-I.`, own config.h each)",
 "C09-7": "\u2014 (caught at first contact: every path is queried from two working directories on one CodeBase object)",
 "C09-8": "patterns with a leading `./` (manual lists and 8 % of generated name / anchored / star patterns); classifiers of the two pathspec findings made precise",
 "C10-7": "one case in 3 compiles a file outside the root; every other case builds its configuration through database files and `load_database`",
 "C10-8": "class `multi`: the code base given as two directories (library API) with path and anchored patterns; expectation = projection on the members of both",
 "C11-7": "values containing `#` inside a word (`-DCOLOR=#fff`, `-Iinc#1`) in command strings rendered with backslash quoting",
 "C11-8": "\u2014 (caught at first contact: `a,b` was already a search-directory name)",
 "C12-7": "argv[0] that exists on disk as a symbolic link to a file named like a known compiler",
 "C12-8": "`format` strings use `$value` and `${value}` alternately",
 "C13-7": "second analysis of every database with all compiled files excluded by pattern: what they include keeps its attribution",
 "C13-8": "headers compiled on their own with `-x c-header`; `-x c`, `-xc`, `-o out.o` among the surrounding options",
 "C14-7": "order-dependent exclude patterns (negation after wildcard), half in `[codebase] exclude`, half as `-x`",
 "C14-8": "every platform compiles one CUDA file with nvcc for its own architecture; platform table order is a perturbation",
 "C15-7": "second names whose extension belongs to another language (`*.inc -> lang_fort.f90`, `*.f90 -> lang_cmt.c`), three per target",
 "C15-8": "a link into a sibling of the root whose name starts with the root's name (`root-build/`)",
 "C16-7": "the code base given as two directories with prefix-related names (`d0`, `d0x`)",
 "C16-8": "wildcard + re-inclusion of one file that has a twin with another extension, in-process and through the command line",
 "C17-7": "second halves of continued literals that start with `#`, `!`, `&` after the leading `&`",
 "C17-8": "`#else ! comment`, `#endif ! comment`",
 "C18-7": "a user configuration gives gcc an implicit option the analysis does not know (command-line runs)",
 "C18-8": "unknown directive names that are prefixes, substrings or case variants of known ones (`#warn`, `#err`, `#e`, `#Line`, `#ERROR`, `#els`)",
}
rows = []
for f in sorted(glob.glob(os.path.join(V, "seeded", "*", "meta.json"))):
    m = json.load(open(f))
    det = m.get("detection", {})
    q = det.get("quick", {})
    own = q.get(m["property"])
    caught = "quick" if own == 1 else ("thorough" if det.get("thorough", {}).get(m["property"]) == 1 else "NOT CAUGHT" if q else "not run")
    others = [p for p, rc in q.items() if rc == 1 and p != m["property"]]
    rows.append((m["id"], m["change"], m["needs_to_manifest"], caught + (" (+" + ",".join(others) + ")" if others else ""), ADDED.get(m["id"], "— (caught at first contact)")))
out = ["## Appendix D — seeded changes: what each needs, which check catches it, what was added", "",
       "Generated by `tools/gen_appendix_d.py` from `/verif/seeded/*/meta.json` (detection = exit 1 with a VIOLATION line",
       "from the property's own check on `/repo` with the patch applied).", "",
       "| id | change | needs in order to manifest | caught by | added to the checks after a first miss |", "|---|---|---|---|---|"]
for r in rows:
    out.append("| " + " | ".join(x.replace("|", "\\|") for x in r) + " |")
text = "\n".join(out) + "\n"
p = os.path.join(V, "DESIGN.md")
s = open(p).read()
if "## Appendix D" in s:
    s = s[: s.index("## Appendix D")]
s = s.rstrip("\n") + "\n\n" + text
open(p, "w").write(s)
print(len(rows), "rows;", sum(1 for r in rows if r[3].startswith(("quick", "thorough"))), "caught")
