"""Searches used to construct the C14 rounding-tie tables (cbimon/props/c14.py TIES). Run with /venv/bin/python on a tree
WITHOUT fix b15a255 to reproduce; three independent searches: distance by table order, divergence by platform order,
average coverage by platform order."""

# --- 1: distance ---
import itertools, random, sys
sys.path.insert(0,"/repo")
import warnings; warnings.simplefilter("ignore")
from codebasin import report
import io
P=["A","B","C"]
sets=[frozenset(s) for r in range(0,4) for s in itertools.combinations(P,r)]
rng=random.Random(5)
found=[]
def metrics(sm):
    return (f"{report.divergence(sm):.2f}", f"{report.average_coverage(sm):.2f}", tuple(f"{report.distance(sm,a,b):.2f}" for a,b in itertools.combinations(P,2)))
for trial in range(200000):
    counts={s:rng.randint(0,9) for s in sets}
    items=[(s,c) for s,c in counts.items() if c]
    seen=set()
    for k in range(12):
        rng.shuffle(items)
        sm=dict(items)
        d=[f"{report.distance(sm,a,b):.2f}" for a,b in itertools.combinations(P,2)]
        seen.add(tuple(d))
    if len(seen)>1:
        found.append(({",".join(sorted(s)):c for s,c in counts.items()}, seen))
        if len(found)>=5: break
print(trial, found)

# --- 2: divergence ---
import itertools, random, sys
sys.path.insert(0,"/repo")
import warnings; warnings.simplefilter("ignore")
from codebasin import report
P=["A","B","C","D"]
sets=[frozenset(s) for r in range(0,5) for s in itertools.combinations(P,r)]
rng=random.Random(7)
fd=[];fa=[]
def div(sm,order):
    d=0;n=0
    for a,b in itertools.combinations(order,2):
        d+=report.distance(sm,a,b);n+=1
    return d/n
def avg(sm,order):
    return sum([report.coverage(sm,[p]) for p in order])/len(order)
for trial in range(100000):
    k=rng.choice([3,4])
    PP=P[:k]
    counts={s:rng.randint(0,9) for s in sets if s<=set(PP)}
    sm={s:c for s,c in counts.items() if c}
    ds={f"{div(sm,o):.2f}" for o in itertools.permutations(PP)}
    as_={f"{avg(sm,o):.2f}" for o in itertools.permutations(PP)}
    if len(ds)>1 and len(fd)<4: fd.append(({",".join(sorted(s)):c for s,c in counts.items()}, ds))
    if len(as_)>1 and len(fa)<4: fa.append(({",".join(sorted(s)):c for s,c in counts.items()}, as_))
    if len(fd)>=4 and len(fa)>=4: break
print(trial); print(fd); print(fa)

# --- 3: average coverage (pure arithmetic) ---
import itertools
found=[]
for total in range(6,400):
  for n in (3,4):
    for us in itertools.combinations_with_replacement(range(1,min(total,14)),n):
        if sum(us)>total: continue
        vals=[(u/total)*100.0 for u in us]
        outs={f"{sum([vals[i] for i in o])/n:.2f}" for o in itertools.permutations(range(n))}
        if len(outs)>1:
            found.append((total,us,outs))
    if len(found)>6: break
  if len(found)>6: break
print(found[:8])
