#!/usr/bin/env python3
"""Regenerates /verif/MANIFEST.json from the property table below (keeps it valid at all times)."""
import json
import os

HERE = os.path.dirname(os.path.dirname(os.path.abspath(__file__)))
ALL = [f"C{i:02d}" for i in range(1, 19)]

CHECKS = {
    "C01": ("reference-oracle monitor: finder.find on generated translation units vs gcc -E markers / gcc -dM; exhaustive chain shapes x all -D assignments + random + stress; H-eval/H-platform trace obligations",
            "Runtime monitoring of the real finder.find on every conditional-chain forest up to the bound (all 2^k -D assignments) and on random/stress programs; per-line attribution, #define/#undef evaluation trace and final macro table are compared with gcc. Exhaustive within the bound, sampled beyond it.",
            "gcc 12.2 -E is the conforming preprocessor; a group's liveness is read from a marker on its first line; #if expressions restricted to forms outside C02's corner cases", "6/C01"),
    "C02": ("differential monitor on the IfNode evaluation pipeline: gcc -E batch oracle + cexpr reference evaluator (must agree), probes for value and signedness, AST shrinker + mechanism classifier for known findings",
            "Every enumerated expression (operator x boundary-literal grid, all ordered operator pairs, all literal spellings, defined/identifier forms) and random trees are evaluated by the real Lexer/MacroExpander/ExpressionEvaluator and compared with gcc and the reference evaluator; #elif-after-taken cases go through finder.find.",
            "gcc and cexpr agree on all compared cases; undefined-in-C operands and gcc-diagnosed expressions are excluded; listed known findings are genuine defects kept open", "6/C02"),
    "C03": ("external-oracle monitor: MacroExpander.expand on a recording Platform (macros entered as #define, as -D strings and mixed; H-expand step counter) vs gcc -E -P tokenised by the independent pptok; #if and #include paths; macro/token shrinker + mechanism classifier",
            "Hand-written hostile corpus (ISO C 6.10.3.5 examples, empty arguments beside ##, rescanning with following source, recursion kinds, 199-deep chains) plus random macro tables from the quantifier's grammar; expansion step bound 1e5.",
            "gcc 12.2 -E -P is the conforming preprocessor; punctuator runs are exploded before comparison; ## ## and ## # sequences are outside the premise", "6/C03"),
    "C12": ("reference-model + relational monitor: config._load_compilers / ArgumentParser.parse_args on generated .cbi/config files vs the ccmodel semantics; model-free relations (implicit==explicit, alias==target, repeated and interleaved parses agree); end-to-end passes through load_database + finder.find vs gcc per pass",
            "Built-in definition files with every documented flag subset for every built-in name, all alias graphs over 4 names, random user configurations x command lines, each command parsed twice and interleaved.",
            "ccmodel written from the documentation/schema is the reference for generated unambiguous rules; pass/mode contributions compared as multisets", "6/C12"),
    "C04": ("external-oracle monitor: finder.find on generated header forests vs gcc -E markers, -H and -dM run in the source directory; H-platform look-up trace; differential classifiers for the known search-order / redefinition findings",
            "The complete memoisation/search-order space (same header name in every subset of {includer dir, d1, d2}, quote/angle, both orders, every -I/-isystem order) plus random forests with guarded/once/toggle headers, computed includes and -include.",
            "gcc 12.2 search rules; gcc runs in the source file's directory; directive lines follow the C01 rule per file", "6/C04"),
    "C06": ("cross-front-end consistency monitor: in-process per-line attribution vs parsed output of codebasin -R summary/clustering, cbi-tree (plain, --prune, -L) and cbi-cov per platform; exact integer/Fraction recomputation; structural invariants on ParserState",
            "Random multi-directory code bases with unused C/C++/CUDA/Fortran/asm files, symlinks, 0..4 platforms; every report parsed back and recomputed.",
            "the in-process attribution is the reference for the reports (its own correctness is decided by C01/C04); values compared at printed precision", "6/C06"),
    "C08": ("metamorphic + external-oracle monitor: full run vs union of single-command runs vs permuted command/platform order vs platform subsets (in-process and CLI -p in fresh processes) vs gcc per command; H-assoc Platform snapshots at translation-unit boundaries",
            "Forests with leak detectors (macros, once-lists, include memo) for 2..6 commands over 1..4 platforms; leak sensitivity of each case is measured with gcc.",
            "a new finder.find call is a fresh analysis (CLI sample confirms); -isystem not generated here", "6/C08"),
    "C10": ("metamorphic + external-oracle monitor: analysis with vs without exclude patterns (all subsets of files for small cases), out-of-root headers, CLI -x vs [codebase] exclude; git check-ignore decides the matched files, gcc the absolute attribution",
            "Forests whose headers define macros other files test; per-line attribution must be unchanged and the setmap must be the projection onto the remaining members.",
            "git decides pattern matching; gcc per command is the absolute oracle", "6/C10"),
    "C14": ("perturbation monitor: the real CLIs in fresh processes under PYTHONHASHSEED values, shuffled os.scandir/listdir (H-order), re-created directory entries and permuted [platform.*] tables; parsed outputs compared as mappings / sets of sets",
            "Each generated code base is analysed 9 times; the monitor records the iteration orders actually seen and is inconclusive if the perturbations did not change them.",
            "row/entry/group order follows enumeration order by design and is not compared; every value must be identical", "6/C14"),
    "C15": ("metamorphic monitor: forest decorated with file/dir symlinks and redundant path segments vs its canonical twin, keyed by physical file; structural invariant one-tree-per-inode; gcc on the twin; cbi-tree on a sample",
            "Compile commands, -I, -include and #include spellings go through aliases; unused links to members and to outside files.",
            "physical identity = realpath/inode; compiled file links sit beside their target", "6/C15"),
    "C17": ("reference-model + external-oracle monitor: FileParser on generated free-form Fortran vs the fscan line-class scanner; finder.find selection of marker statements vs gfortran -cpp -E for every define set; gfortran -fsyntax-only as premise filter",
            "Every sequence of <=2 (thorough 3) lines from a 34-line vocabulary inside a program skeleton plus random programs from the statement grammar, crossed with 10 define sets.",
            "gfortran 12.2 -cpp is the Fortran pipeline; fscan is the reference for line classes; a lone continuation '&' is not statement text", "6/C17"),
    "C18": ("trace monitor over log records: expected multiset of warnings (dangling includes counted dynamically with a gcc probe twin, unknown directives, database-level events) vs records captured from the real codebasin CLI / in-process runs, cbi.log and the printed totals",
            "Forests with ~30% dangling include sites (quote/angle/computed, live/dead, multiply included, several TUs), unknown and benign directives, database entries for missing files, unknown compilers, unknown flags; fully resolvable controls.",
            "gcc probe twin gives dynamic evaluation counts; unknown directives: exactly one warning per live site, at most one per dead site", "6/C18"),
    "C05": ("reference-model monitor: c_file_source / FileParser output vs the cscan phase-1..3 scanner on all texts up to length L over the lexical alphabet, all short sequences of vocabulary lines, random token texts; cscan cross-checked against gcc -E line positions",
            "Exhaustive small-scope enumeration of texts (length <= 6 quick / 7 thorough) plus line-vocabulary sequences and random files, each checked for counted-line set, directive/code class, no duplicates, range and total_sloc.",
            "cscan is the reference and agreed with gcc on every sampled and violating case; every character of a literal counts as code", "6/C05"),
    "C07": ("reference-model + metamorphic monitor on report.coverage/average_coverage/distance/divergence: exact Fraction oracle on every table over <=3 platforms and random large tables; rename/reorder/scale relations",
            "All tables over <=3 platforms with counts in {absent,0,1,2,5} (exhaustive in thorough), every platforms= subset, every ordered pair, plus random tables up to 8 platforms / 10^12 lines.",
            "Fraction re-implementation of the definitions; 1e-9 relative tolerance; distance of two empty line sets may be NaN or 0", "6/C07"),
    "C09": ("reference-oracle monitor: CodeBase.__contains__/__iter__ on generated trees x gitignore pattern lists under >=5 spellings per path vs `git check-ignore --no-index` + os.stat",
            "Random trees with symlinks/metacharacter names crossed with pattern lists built from their own names, plus a fixed tree against the gitignore manual's pattern forms.",
            "git 2.39 is the gitignore semantics; extension list copied from the pinned source.py; ASCII names only", "6/C09"),
    "C11": ("reference-model monitor: config.ArgumentParser.parse_args / CompileCommand / load_database vs the argmodel driver scanner (validated against gcc -E -dM -v) and /bin/sh word splitting; argv shrinker + mechanism classifier",
            "Every catalogue flag before/after every modelled option spelling, all ordered pairs of modelled options, random vectors of 3..25 items, command-string renderings, database files.",
            "argmodel is the reference; vectors where an unmodelled flag's value looks like an option are outside the premise", "6/C11"),
    "C13": ("reference-model + external-oracle monitor: config.load_database / finder.find on generated databases vs pathmodel + os.path.samefile + gcc run in the entry's directory; H-log for the skip warnings",
            "Full spelling grid (directory x file x -I spellings x 5 working directories x arguments/command form) for single entries, every kind of skipped entry in first/middle/last position, random multi-entry databases.",
            "pathmodel confirmed by the kernel and by gcc; without `directory` paths are root-relative; a warning is demanded for missing files only", "6/C13"),
    "C16": ("reference-oracle monitor with fault injection: report.find_duplicates and the CLI duplicates report vs byte-wise partition, each case also under a forced weak digest (H-hash)",
            "Random code bases drawn from a small content pool (classes of every size, near-duplicates, excluded/symlinked/hard-linked twins).",
            "byte-wise partition is the definition; H-hash exercises the confirmation loop, not SHA-512", "6/C16"),
}

NOT_YET = "check under construction in this round; no claim yet"


def main():
    checks = []
    for pid in ALL:
        if pid not in CHECKS:
            continue
        tech, text, note, ref = CHECKS[pid]
        checks.append({
            "property_id": pid,
            "quick_cmd": f"VERIF_TIER=quick ./check {pid}",
            "thorough_cmd": f"VERIF_TIER=thorough ./check {pid}",
            "evidence_file": f"/verif/evidence/{pid}.json",
            "replay_cmd_template": f"./check {pid} --replay {{path}}",
            "engine": "cbimon",
            "level_claimed": {"category": "exploration", "text": text, "design_ref": f"DESIGN.md section {ref}"},
            "level_note": note,
            "technique": "runtime monitoring: " + tech,
        })
    manifest = {
        "version": 1,
        "setup_cmd": "./setup.sh",
        "hooks": {
            "guard": "CBI_VERIF",
            "enable": "CBI_VERIF=1 (set by ./check for its worker interpreters); monitors are installed from the harness by wrapping attributes of the imported codebasin modules, no hook code lives in /repo",
            "baseline_off_cmd": "cd /repo && env -u CBI_VERIF /venv/bin/python -m pytest -ra -q -p no:cacheprovider --timeout=900 --continue-on-collection-errors",
            "source_commits": [],
            "add_only": True,
        },
        "engines": [{"name": "cbimon", "path": "/verif/cbimon", "serves_properties": [c["property_id"] for c in checks],
                     "kind_free_text": "pure-Python runtime-monitoring harness: sharded workers run the real codebasin code from /repo's working tree under hooks, compare recorded executions with external oracles (gcc, gfortran, git, sh) and reference models, classify violations against known_findings.json"}],
        "checks": checks,
        "not_applicable": [{"property_id": p, "reason": NOT_YET} for p in ALL if p not in CHECKS],
        "notes": "Known genuine defects are listed in /verif/known_findings.json (mechanism-keyed); repaired ones are 'fixed:' entries there and 'fix:' commits in /repo. Exit codes: 0 held, 1 violation, 2 inconclusive.",
    }
    with open(os.path.join(HERE, "MANIFEST.json"), "w") as f:
        json.dump(manifest, f, indent=1)
        f.write("\n")


if __name__ == "__main__":
    main()
