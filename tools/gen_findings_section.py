#!/usr/bin/env python3
"""Rewrites the generated lists in DESIGN.md section 5 ("What the monitors found") from /repo's git log and
known_findings.json.  The hand-written paragraphs around the lists are left alone."""
import json
import re
import subprocess
import os

HERE = os.path.dirname(os.path.dirname(os.path.abspath(__file__)))
REPO = os.environ.get("CBI_REPO", "/repo")

log = subprocess.run(["git", "-C", REPO, "log", "--reverse", "--format=%h %s"], capture_output=True, text=True).stdout
fixes = [ln.split(" ", 1) for ln in log.splitlines() if ln.split(" ", 1)[1].startswith("fix:")]
kf = json.load(open(os.path.join(HERE, "known_findings.json")))
recorded = " ".join(kf["fixed"])
out = ["**Repaired (%d `fix:` commits in /repo, oldest first):**" % len(fixes), ""]
for h, s in fixes:
    mark = "" if h in recorded else "  (not yet in known_findings.json!)"
    out.append("* `%s` %s%s" % (h, s[len("fix:"):].strip(), mark))
out += ["", "**Open known findings (mechanism-keyed predicates over the shrunk witness):**", ""]
for f in kf["findings"]:
    if f.get("status") == "open":
        out.append("* %s `%s` — %s" % (f["property"], f["mechanism"], f["what"]))
text = open(os.path.join(HERE, "DESIGN.md")).read()
pat = re.compile(r"\*\*Repaired \(\d+ `fix:` commits.*?(?=\nWhy these stay open)", re.S)
assert pat.search(text)
text = pat.sub(lambda m: "\n".join(out) + "\n", text)
text = re.sub(r"small \(\d+ `fix:` commits in /repo", "small (%d `fix:` commits in /repo" % len(fixes), text)
open(os.path.join(HERE, "DESIGN.md"), "w").write(text)
print(len(fixes), "fixes,", sum(1 for f in kf["findings"] if f.get("status") == "open"), "open findings")
