#!/bin/sh
# tools/try_seeded.sh <worktree-with-mutantN.diff/demoN.py> <N> <PROP> [tier]
# 1. verifies the change in the worktree: baseline demo passes; with patch: full test-suite passes and demo fails
# 2. applies the patch to /repo, runs ./check PROP (quick, then thorough if quick misses), reverts /repo
WT=$1; N=$2; PROP=$3; TIER=${4:-quick}
cd "$WT" || exit 9
git checkout -q -- . 2>/dev/null
PYTHONPATH=$WT /venv/bin/python demo$N.py >/dev/null 2>&1; b=$?
git apply mutant$N.diff || { echo "$PROP m$N: patch does not apply"; exit 9; }
t=$(PYTHONPATH=$WT /venv/bin/python -m pytest -q -p no:cacheprovider 2>&1 | tail -1)
PYTHONPATH=$WT /venv/bin/python demo$N.py >/dev/null 2>&1; m=$?
git checkout -q -- .; rm -f cbi.log
echo "$PROP m$N: baseline-demo=$b mutated-demo=$m tests: $t"
case "$t" in *failed*|*error*) echo "$PROP m$N: REJECTED (tests fail)"; exit 8;; esac
[ $b -eq 0 ] && [ $m -ne 0 ] || { echo "$PROP m$N: REJECTED (demo does not discriminate)"; exit 8; }
cd /repo && { git apply "$WT/mutant$N.diff" 2>/dev/null || git apply --3way "$WT/mutant$N.diff" 2>/dev/null || { echo "cannot apply to /repo"; exit 9; }; }; git -C /repo reset -q
cd /verif
VERIF_TIER=quick ./check $PROP > /dev/shm/seeded-$PROP-$N.log 2>&1; rc=$?
echo "$PROP m$N: quick rc=$rc $(grep -c '^VIOLATION' /dev/shm/seeded-$PROP-$N.log) violation lines; $(tail -1 /dev/shm/seeded-$PROP-$N.log | cut -c1-150)"
if [ $rc -eq 0 ] && [ "$TIER" = "thorough" ]; then
  VERIF_TIER=thorough ./check $PROP > /dev/shm/seeded-$PROP-$N-thorough.log 2>&1; rc2=$?
  echo "$PROP m$N: thorough rc=$rc2 $(tail -1 /dev/shm/seeded-$PROP-$N-thorough.log | cut -c1-150)"
fi
git -C /repo checkout -q -- .
git -C /repo status --short | grep -v cbi.log
exit 0
