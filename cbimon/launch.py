"""
cbimon.launch -- run a CBI front end inside a monitored interpreter.

    python -m cbimon.launch codebasin|cbi-tree|cbi-cov  <args...>

Options come from the environment (JSON in CBIMON_LAUNCH) and are honoured only
when the hook guard CBI_VERIF=1 is set:
    {"shuffle": seed}     os.scandir / os.listdir return entries in a seeded permutation (H-order)
    {"weakhash": true}    hashlib.file_digest returns a deliberately weak digest (H-hash)
    {"dump": path}        after the run, write the in-process setmap, per-line attribution, the iteration
                          orders observed and the log records to `path`
"""

import atexit
import json
import os
import random
import sys
import warnings

warnings.simplefilter("ignore", DeprecationWarning)


class _Scan:
    def __init__(self, entries):
        self._entries = entries

    def __iter__(self):
        return iter(self._entries)

    def __next__(self):
        raise TypeError

    def __enter__(self):
        return self

    def __exit__(self, *a):
        return False

    def close(self):
        pass


def install(opts):
    observed = {"scandir_orders": [], "codebase_order": None, "platform_order": None, "logs": []}
    if "shuffle" in opts:
        rng = random.Random(opts["shuffle"])
        o_scandir, o_listdir = os.scandir, os.listdir

        def scandir(path="."):
            with o_scandir(path) as it:
                entries = list(it)
            rng.shuffle(entries)
            observed["scandir_orders"].append([e.name for e in entries])
            return _Scan(entries)

        def listdir(path="."):
            entries = o_listdir(path)
            rng.shuffle(entries)
            return entries

        os.scandir, os.listdir = scandir, listdir
    if opts.get("weakhash"):
        import hashlib

        class _Weak:
            def __init__(self, n):
                self.n = n

            def hexdigest(self):
                return "weak%d" % (self.n % 3)

        def file_digest(f, alg):
            return _Weak(len(f.read()))

        hashlib.file_digest = file_digest
    if "dump" in opts:
        import logging
        import codebasin.finder as finder
        from codebasin.preprocessor import CodeNode

        captured = {}
        o_find = finder.find

        def find(rootdir, codebase, configuration, **kw):
            state = o_find(rootdir, codebase, configuration, **kw)
            captured["state"], captured["codebase"], captured["configuration"] = state, codebase, configuration
            return state

        finder.find = find

        class H(logging.Handler):
            def emit(self, record):
                try:
                    observed["logs"].append([record.levelname, record.name, record.getMessage()])
                except Exception:
                    pass

        logging.getLogger("codebasin").addHandler(H(level=logging.DEBUG))

        def dump():
            out = dict(observed)
            st = captured.get("state")
            if st is not None:
                cb = captured["codebase"]
                files = list(cb)
                out["codebase_order"] = files
                out["platform_order"] = list(captured["configuration"].keys())
                out["setmap"] = {",".join(sorted(k)): v for k, v in st.get_setmap(cb).items()}
                attr = {}
                for fn in st.get_filenames():
                    tree, amap = st.get_tree(fn), st.get_map(fn)
                    per = {}
                    for node in tree.walk():
                        if isinstance(node, CodeNode):
                            for ln in node.lines:
                                per[str(ln)] = sorted(set(per.get(str(ln), [])) | set(amap[node]))
                    attr[fn] = per
                out["attribution"] = attr
                out["entries"] = {p: [{k: e[k] for k in ("file", "defines", "include_paths", "include_files")}
                                      for e in es] for p, es in captured["configuration"].items()}
            with open(opts["dump"], "w") as f:
                json.dump(out, f)

        atexit.register(dump)


def main():
    tool = sys.argv[1]
    opts = {}
    if os.environ.get("CBI_VERIF") == "1":
        opts = json.loads(os.environ.get("CBIMON_LAUNCH", "{}") or "{}")
        if opts:
            install(opts)
    if tool == "codebasin":
        import codebasin.__main__ as m
        sys.argv = ["codebasin"] + sys.argv[2:]
    elif tool == "cbi-tree":
        import codebasin.tree as m
        sys.argv = ["codebasin.tree"] + sys.argv[2:]
    elif tool == "cbi-cov":
        import codebasin.coverage.__main__ as m
        sys.argv = ["codebasin.coverage"] + sys.argv[2:]
    else:
        raise SystemExit("unknown tool " + tool)
    m.main()


if __name__ == "__main__":
    main()
