"""git's own .gitignore semantics as oracle: `git check-ignore --no-index` against a scratch git dir whose
info/exclude holds the patterns and whose work tree is the generated directory."""

import os
import subprocess


class GitIgnore:
    def __init__(self, scratch):
        self.gitdir = os.path.join(scratch, "oracle.git")
        if not os.path.isdir(self.gitdir):
            subprocess.run(["git", "init", "-q", "--bare", self.gitdir], check=True,
                           env=dict(os.environ, GIT_CONFIG_NOSYSTEM="1", HOME=scratch))
        self.env = dict(os.environ, GIT_CONFIG_NOSYSTEM="1", HOME=scratch, GIT_CONFIG_GLOBAL="/dev/null")
        self.calls = 0

    def ignored(self, root, patterns, relpaths):
        """{relpath: bool ignored} for root-relative paths under the pattern list."""
        os.makedirs(os.path.join(self.gitdir, "info"), exist_ok=True)
        with open(os.path.join(self.gitdir, "info", "exclude"), "w", newline="") as f:
            for p in patterns:
                f.write(p + "\n")
        if not relpaths:
            return {}
        inp = "\0".join(relpaths) + "\0"
        p = subprocess.run(["git", "--git-dir=" + self.gitdir, "--work-tree=" + root, "-c", "core.excludesFile=/dev/null",
                            "check-ignore", "--no-index", "-v", "-n", "-z", "--stdin"],
                           input=inp.encode("utf-8", "surrogateescape"), capture_output=True, cwd=root, env=self.env)
        self.calls += 1
        if p.returncode not in (0, 1):
            raise RuntimeError("git check-ignore failed: " + p.stderr.decode("utf-8", "replace")[:300])
        fields = p.stdout.decode("utf-8", "surrogateescape").split("\0")
        out = {}
        # records: source, linenum, pattern, pathname
        for i in range(0, len(fields) - 1, 4):
            src, ln, pat, path = fields[i:i + 4]
            out[path] = bool(pat) and not pat.startswith("!")
        return out
