"""
ccmodel -- reference semantics of CBI's compiler configuration (DESIGN.md
appendix A.6), written from docs/source/emulating-compiler-behavior.rst, the
cbiconfig schema and the action docstrings.  Shares no code with /repo.

A configuration is a dict  name -> {"alias_of": str} | {"options": [...],
"parser": [rule...], "modes": [mode...], "passes": [pass...]}  (the TOML
structure).  merge(builtin, user) applies the documented merge; expected()
computes, for a command line, the map  pass name -> (defines, include_paths,
include_files)  split into an ordered command-line part and an unordered
pass/mode part.
"""

import copy
import re
import string
import tomllib
import os

BUILTIN_FILES = ["clang", "gnu", "intel", "nvidia"]


def load_builtin(repo):
    out = {}
    for n in BUILTIN_FILES:
        with open(os.path.join(repo, "codebasin", "compilers", n + ".toml"), "rb") as f:
            t = tomllib.load(f)
        for name, d in t.get("compiler", {}).items():
            out[name] = copy.deepcopy(d)
    return out


def merge(builtin, user):
    """User definitions extend the built-in ones."""
    res = copy.deepcopy(builtin)
    for name, d in (user or {}).items():
        if name not in res:
            res[name] = copy.deepcopy(d)
            continue
        if "alias_of" in d:
            res[name] = copy.deepcopy(d)
            continue
        cur = res[name]
        if "alias_of" in cur:
            cur = res[name] = {}
        cur.setdefault("options", [])
        cur["options"] = list(cur["options"]) + list(d.get("options", []))
        cur["parser"] = list(cur.get("parser", [])) + copy.deepcopy(d.get("parser", []))
        for key in ("modes", "passes"):
            lst = list(cur.get(key, []))
            for m in d.get(key, []):
                lst = [x for x in lst if x["name"] != m["name"]] + [copy.deepcopy(m)]
            cur[key] = lst
    return res


def resolve(compilers, name):
    """Returns (definition | None, status) with status in ok / unknown / loop / dangling."""
    if name not in compilers:
        return None, "unknown"
    seen = [name]
    cur = name
    while "alias_of" in compilers[cur] and compilers[cur]["alias_of"]:
        nxt = compilers[cur]["alias_of"]
        if nxt in seen:
            return None, "loop"
        if nxt not in compilers:
            return None, "dangling"
        seen.append(nxt)
        cur = nxt
    return compilers[cur], "ok"


COMMON = {"-D": "defines", "-I": "include_paths", "-isystem": "include_paths", "-include": "include_files"}


def expected(compilers, argv0, args):
    """{pass: {"cmd": (defines, paths, files) ordered, "extra": (defines, paths, files) unordered}} , status"""
    comp, status = resolve(compilers, os.path.basename(argv0))
    comp = comp or {}
    argv = list(args) + list(comp.get("options", []))
    rules = comp.get("parser", [])
    flagmap = {}
    for r in rules:
        for f in r["flags"]:
            flagmap[f] = r
    cmd = {"defines": [], "include_paths": [], "include_files": []}
    sys_paths = []        # -isystem directories: searched after every -I directory
    modes = []
    passes = []
    rule_passes = {}     # id(rule) -> list   (custom actions with dest passes)
    used_override = set()
    for r in rules:
        if r["action"] in ("store_split", "extend_match") and r.get("dest") == "passes" and "default" in r:
            d = r["default"]
            rule_passes[id(r)] = list(d) if isinstance(d, list) else [d]
    i = 0
    while i < len(argv):
        a = argv[i]
        flag, val = None, None
        for f in COMMON:
            if a == f:
                flag, val = f, (argv[i + 1] if i + 1 < len(argv) else None)
                i += 1
                break
            if a.startswith(f) and f in ("-D", "-I") and len(a) > len(f) and a not in flagmap and a.split("=")[0] not in flagmap:
                flag, val = f, a[len(f):]
                break
            if a.startswith(f) and f in ("-isystem", "-include") and len(a) > len(f) and a[len(f)] != "-" and a not in flagmap:
                flag, val = f, a[len(f):]        # value attached to the flag
                break
        if flag:
            if val is not None:
                (sys_paths if flag == "-isystem" else cmd[COMMON[flag]]).append(val)
            i += 1
            continue
        key = a.split("=", 1)[0] if a.startswith("-") else a
        r = flagmap.get(a) or flagmap.get(key)
        if r is None:
            i += 1
            continue
        act = r["action"]
        takes = act in ("store_split", "extend_match", "append", "store")
        v = None
        if takes:
            if "=" in a and a not in flagmap:
                v = a.split("=", 1)[1]
            else:
                v = argv[i + 1] if i + 1 < len(argv) else None
                i += 1
        i += 1
        dest = r.get("dest")
        if act == "append_const":
            tgt = {"modes": modes, "passes": passes}.get(dest, cmd.get(dest))
            if tgt is not None:
                tgt.append(r["const"])
        elif act == "store_split" and v is not None:
            vals = v.split(r.get("sep"))
            if r.get("format"):
                vals = [string.Template(r["format"]).substitute(value=x) for x in vals]
            if dest == "passes":
                rule_passes[id(r)] = vals
            elif dest == "modes":
                modes[:] = vals
            elif dest in cmd:
                cmd[dest][:] = vals
        elif act == "extend_match" and v is not None:
            vals = re.findall(r["pattern"], v)
            if r.get("format"):
                vals = [string.Template(r["format"]).substitute(value=x) for x in vals]
            if dest == "passes":
                if r.get("override") and id(r) not in used_override:
                    rule_passes[id(r)] = vals
                    used_override.add(id(r))
                else:
                    rule_passes.setdefault(id(r), []).extend(vals)
            elif dest == "modes":
                modes.extend(vals)
            elif dest in cmd:
                cmd[dest].extend(vals)
    cmd["include_paths"] = cmd["include_paths"] + sys_paths
    all_passes = {"default"} | set(passes)
    for lst in rule_passes.values():
        all_passes |= set(lst)
    modedefs = {m["name"]: m for m in comp.get("modes", [])}
    passdefs = {p["name"]: p for p in comp.get("passes", [])}
    out = {}
    for p in sorted(all_passes):
        extra = {"defines": [], "include_paths": [], "include_files": []}
        if p == "default":
            ms = sorted(set(modes))
        else:
            if p not in passdefs:
                continue      # reported as an error, no configuration
            for k in extra:
                extra[k] += list(passdefs[p].get(k, []))
            ms = list(passdefs[p].get("modes", []))
        for m in ms:
            if m in modedefs:
                for k in extra:
                    extra[k] += list(modedefs[m].get(k, []))
        out[p] = {"cmd": (list(cmd["defines"]), list(cmd["include_paths"]), list(cmd["include_files"])),
                  "extra": (sorted(extra["defines"]), sorted(extra["include_paths"]), sorted(extra["include_files"]))}
    return out, status
