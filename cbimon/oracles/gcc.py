"""The external oracle: gcc -E as 'a conforming C preprocessor run with that compile command'."""

import os
import re
import subprocess

GCC = os.environ.get("CBIMON_GCC", "gcc")
BASE = [GCC, "-E", "-x", "c", "-std=gnu17", "-nostdinc", "-undef"]
MARK = re.compile(r"cbi_m_\w+")


def run(args, cwd=None, input=None, timeout=60):
    p = subprocess.run(args, cwd=cwd, input=input, capture_output=True, text=True, timeout=timeout,
                       errors="replace")
    return p.returncode, p.stdout, p.stderr


def flags(defines=(), search=(), includes=()):
    """search: sequence of ("I"|"isystem", dir); includes: forced include files."""
    out = []
    for d in defines:
        out.append("-D" + d)
    for kind, d in search:
        if kind == "I":
            out += ["-I", d]
        else:
            out += ["-isystem", d]
    for f in includes:
        out += ["-include", f]
    return out


def preprocess(path, defines=(), search=(), includes=(), cwd=None, P=True, H=False, extra=()):
    """Returns dict(ok, markers(list, in order), stderr, stdout, includes(list of resolved paths if H))."""
    cmd = BASE + (["-P"] if P else []) + (["-H"] if H else []) + list(extra) + flags(defines, search, includes) + [path]
    rc, out, err = run(cmd, cwd=cwd or os.path.dirname(path))
    inc = []
    diag = err
    if H:
        keep = []
        skipping = False
        for ln in err.splitlines():
            if ln.startswith("."):
                m = re.match(r"^(\.+) (.*)$", ln)
                if m:
                    inc.append((len(m.group(1)), m.group(2)))
                    continue
            if ln.startswith("Multiple include guards may be useful for:"):
                skipping = True
                continue
            if skipping and (ln.startswith("/") or ln.startswith("./") or not ln.strip() or not ln.startswith(" ") and ":" not in ln):
                continue
            keep.append(ln)
        diag = "\n".join(keep)
    return {"ok": rc == 0 and not diag.strip(), "rc": rc, "markers": MARK.findall(out), "stdout": out,
            "stderr": diag, "includes": inc}


def final_macros(path, defines=(), search=(), includes=(), cwd=None):
    """{name: (params|None, body)} for every macro defined at the end of the TU (gcc -dM)."""
    cmd = BASE + ["-dM"] + flags(defines, search, includes) + [path]
    rc, out, err = run(cmd, cwd=cwd or os.path.dirname(path))
    table = {}
    for ln in out.splitlines():
        m = re.match(r"#define (\w+)(\([^)]*\))?(?: (.*))?$", ln)
        if m:
            table[m.group(1)] = (m.group(2), (m.group(3) or "").strip())
    return rc == 0 and not err.strip(), table


def eval_exprs(cases, workdir, name="exprs.c"):
    """cases: list of (expr_text, {macro: body}); returns list of (truth|None, diagnostic|None).
    One gcc run; every case is a block  #define.. / #if E / marker / #endif / #undef..  and a
    diagnostic is attributed to the case by its line number."""
    lines = []
    owner = {}
    for i, (expr, macros) in enumerate(cases):
        start = len(lines) + 1
        for k, v in (macros or {}).items():
            lines.append(f"#define {k} {v}".rstrip())
        lines.append(f"#if {expr}")
        lines.append(f"cbi_m_e{i};")
        lines.append("#endif")
        for k in (macros or {}):
            lines.append("#undef " + k.split("(")[0])       # keys may be function-like: NAME(params)
        for ln in range(start, len(lines) + 1):
            owner[ln] = i
    path = os.path.join(workdir, name)
    with open(path, "w") as f:
        f.write("\n".join(lines) + "\n")
    rc, out, err = run(BASE + ["-P", "-fno-diagnostics-show-caret", path], cwd=workdir, timeout=300)
    live = set(MARK.findall(out))
    diag = {}
    pat = re.compile(r"^" + re.escape(path) + r":(\d+):(?:\d+:)? (.*)$")
    for ln in err.splitlines():
        m = pat.match(ln)
        if m:
            i = owner.get(int(m.group(1)))
            if i is not None:
                diag.setdefault(i, m.group(2))
        elif ln.strip() and not ln.startswith(" ") and "In file included" not in ln:
            # unattributable diagnostic: poison everything (never happens with this layout)
            diag.setdefault(-1, ln)
    res = []
    for i in range(len(cases)):
        if i in diag or -1 in diag:
            res.append((None, diag.get(i, diag.get(-1))))
        else:
            res.append((f"cbi_m_e{i}" in live, None))
    return res


def token_lines(path, cwd=None):
    """(ok, set of physical lines of `path` on which gcc -E (without -P) emits a token)."""
    rc, out, err = run(BASE + [path], cwd=cwd or os.path.dirname(path))
    lines = set()
    cur = None
    base = os.path.basename(path)
    for ln in out.split("\n"):
        m = re.match(r'^# (\d+) "([^"]*)"((?: \d+)*)$', ln)
        if m:
            cur = int(m.group(1)) if os.path.basename(m.group(2)) == base else None
            continue
        if cur is not None:
            if ln.strip():
                lines.add(cur)
            cur += 1
    return (rc == 0 and not err.strip()), lines, err


def open_at_end(defines, text, workdir, name="selfcontained.c"):
    """True iff the text, as the LAST line of a file, leaves a macro invocation open (gcc: 'unterminated argument list
    invoking macro'): such a probe is not self-contained -- what it expands to depends on what follows it."""
    path = os.path.join(workdir, name)
    with open(path, "w") as f:
        f.write("\n".join(list(defines) + [text]) + "\n")
    rc, out, err = run(BASE + ["-P", "-fno-diagnostics-show-caret", path], cwd=workdir, timeout=60)
    return "unterminated argument list" in err


def expand_texts(cases, workdir, name="expand.c"):
    """cases: list of (defines=[ '#define ...' lines ], text). One gcc run; returns list of (expanded text|None, diag)."""
    lines = []
    owner = {}
    for i, (defines, text) in enumerate(cases):
        start = len(lines) + 1
        names = []
        for d in defines:
            lines.append(d)
            m = re.match(r"#\s*define\s+(\w+)", d)
            if m:
                names.append(m.group(1))
        lines.append(f"cbi_m_s{i} {text}")
        lines.append(f"cbi_m_t{i}")
        # an invocation left open by this case (unbalanced parenthesis in a macro body) would swallow every later case
        # of the batch: close it here, so that only this case loses its end marker
        lines.append(") ) ) ) ) ) ) ) ) ) ) ) ) ) ) ) ) ) ) ) ) ) ) ) ) ) ) ) ) ) ) ) ) ) ) ) ) ) ) )")
        for n in dict.fromkeys(names):
            lines.append(f"#undef {n}")
        for ln in range(start, len(lines) + 1):
            owner[ln] = i
    path = os.path.join(workdir, name)
    with open(path, "w") as f:
        f.write("\n".join(lines) + "\n")
    rc, out, err = run(BASE + ["-P", "-fno-diagnostics-show-caret", path], cwd=workdir, timeout=300)
    diag = {}
    pat = re.compile(r"^" + re.escape(path) + r":(\d+):(?:\d+:)? (.*)$")
    for ln in err.splitlines():
        m = pat.match(ln)
        if m:
            i = owner.get(int(m.group(1)))
            if i is not None:
                diag.setdefault(i, m.group(2))
    res = []
    for i in range(len(cases)):
        if i in diag:
            res.append((None, diag[i]))
            continue
        m = re.search(r"cbi_m_s%d\b(.*?)cbi_m_t%d\b(.*?)(?=cbi_m_s%d\b|\Z)" % (i, i, i + 1), out, re.S)
        if not m:
            res.append((None, "markers lost (unterminated invocation swallowed the end marker)"))
        elif m.group(2).count(")") != 40 or m.group(2).replace(")", "").strip():
            # some of the closing parentheses of the guard line were consumed (or other text leaked out): the case left
            # an invocation open at its end, i.e. it is not self-contained
            res.append((None, "invocation still open at the end of the text"))
        else:
            res.append((m.group(1), None))
    return res
