"""pptok -- independent maximal-munch pp-tokeniser (used on gcc output and to canonicalise token streams)."""

import re

TOKEN = re.compile(r"""
    (?P<ws>\s+)
  | (?P<str>(?:u8|u|U|L)?"(?:\\.|[^"\\\n])*")
  | (?P<chr>(?:u8|u|U|L)?'(?:\\.|[^'\\\n])*')
  | (?P<num>\.?[0-9](?:[eEpP][+-]|[0-9a-zA-Z_.])*)
  | (?P<id>[^\W\d]\w*)
  | (?P<p>.)
""", re.X | re.S)


def atoms(text):
    """Canonical atom list: identifiers / numbers / strings / chars whole, every punctuator char separately."""
    # gcc spells characters outside the basic set in identifiers as universal character names
    text = re.sub(r"\\U([0-9a-fA-F]{8})|\\u([0-9a-fA-F]{4})", lambda m: chr(int(m.group(1) or m.group(2), 16)), text)
    out = []
    for m in TOKEN.finditer(text):
        k = m.lastgroup
        if k == "ws":
            continue
        out.append((k, m.group()))
    return out
