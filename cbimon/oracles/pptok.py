"""pptok -- independent maximal-munch pp-tokeniser (used on gcc output and to canonicalise token streams)."""

import re

TOKEN = re.compile(r"""
    (?P<ws>\s+)
  | (?P<str>(?:u8|u|U|L)?"(?:\\.|[^"\\\n])*")
  | (?P<chr>(?:u8|u|U|L)?'(?:\\.|[^'\\\n])*')
  | (?P<num>\.?[0-9](?:[eEpP][+-]|[0-9a-zA-Z_.])*)
  | (?P<id>[A-Za-z_][A-Za-z_0-9]*)
  | (?P<p>.)
""", re.X | re.S)


def atoms(text):
    """Canonical atom list: identifiers / numbers / strings / chars whole, every punctuator char separately."""
    out = []
    for m in TOKEN.finditer(text):
        k = m.lastgroup
        if k == "ws":
            continue
        out.append((k, m.group()))
    return out
