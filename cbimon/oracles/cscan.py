"""
cscan -- reference scanner for C translation phases 1-3 (C17 5.1.1.2), with
every character tagged by its physical line (DESIGN.md appendix A.2).

scan(text) -> Result:
    valid        False on unterminated literal/comment, stray backslash, backslash-space-newline,
                 text ending in backslash / backslash-newline, empty character constant
    counted      sorted list of physical lines holding >=1 non-white-space character outside comments
    directive    set of physical lines that belong to a logical line whose first token is '#'
    nlines       number of physical lines
    eol_states   scanner state at each physical end-of-line (for non-vacuity cells)
"""


class Result:
    __slots__ = ("valid", "why", "counted", "directive", "nlines", "eol_states", "logical", "spliced")


def scan(text):
    r = Result()
    r.valid = True
    r.why = None
    n = len(text)
    # phase 1/2: physical lines and splicing
    chars = []   # (ch, physical line) after splicing; '\n' kept for logical newlines
    line = 1
    i = 0
    spliced_eols = set()
    while i < n:
        c = text[i]
        if c == "\\":
            j = i + 1
            # backslash + optional blanks + newline
            k = j
            while k < n and text[k] in " \t":
                k += 1
            if k < n and text[k] == "\n":
                if k != j:
                    r.valid, r.why = False, "backslash-space-newline"
                spliced_eols.add(line)
                line += 1
                i = k + 1
                if i >= n:
                    r.valid, r.why = False, "backslash-newline at end of file"
                continue
            if j >= n:
                r.valid, r.why = False, "file ends in backslash"
            chars.append((c, line))
            i += 1
            continue
        chars.append((c, line))
        if c == "\n":
            line += 1
        i += 1
    r.nlines = line - 1 if (n == 0 or text.endswith("\n")) else line
    if n == 0:
        r.nlines = 0
    if n and not text.endswith("\n") and (r.nlines - 1) in spliced_eols:
        # gcc: "backslash-newline at end of file" when the unterminated last line is a continuation
        r.valid, r.why = False, "backslash-newline at end of file"
    # phase 3: comments and literals
    NORMAL, STRING, CHAR, LINE_C, BLOCK_C = range(5)
    state = NORMAL
    counted = set()
    directive = set()
    eol_states = {}
    logical_lines = []   # list of (member physical lines set, is_directive)
    cur_lines = set()
    cur_first = None     # first surviving non-ws char of the logical line
    lit_len = 0
    m = len(chars)
    i = 0

    def note(ch, ln, literal=False):
        nonlocal cur_first
        if literal or not ch.isspace():
            counted.add(ln)
            cur_lines.add(ln)
            if cur_first is None:
                cur_first = ch

    while i < m:
        ch, ln = chars[i]
        nxt = chars[i + 1][0] if i + 1 < m else ""
        if ch == "\n":
            eol_states[ln] = state
            if state in (STRING, CHAR):
                r.valid, r.why = False, "unterminated literal"
                state = NORMAL
            if state == LINE_C:
                state = NORMAL
            if state != BLOCK_C:
                logical_lines.append((cur_lines, cur_first == "#"))
                cur_lines = set()
                cur_first = None
            i += 1
            continue
        if state == NORMAL:
            if ch == "/" and nxt == "/":
                state = LINE_C
                i += 2
                continue
            if ch == "/" and nxt == "*":
                state = BLOCK_C
                i += 2
                continue
            if ch == '"':
                state = STRING
                note(ch, ln)
            elif ch == "'":
                state = CHAR
                lit_len = 0
                note(ch, ln)
            elif ch == "\\":
                r.valid, r.why = False, "stray backslash"
                note(ch, ln)
            else:
                note(ch, ln)
            i += 1
        elif state in (STRING, CHAR):
            if ch == "\\":
                note(ch, ln)
                if i + 1 < m and chars[i + 1][0] != "\n":
                    note(chars[i + 1][0], chars[i + 1][1], True)
                    lit_len += 1
                    i += 2
                else:
                    i += 1
                continue
            if (state == STRING and ch == '"') or (state == CHAR and ch == "'"):
                if state == CHAR and lit_len == 0:
                    r.valid, r.why = False, "empty character constant"
                state = NORMAL
                note(ch, ln)
            else:
                lit_len += 1
                note(ch, ln, True)     # every character of a literal, blanks included, is code
            i += 1
        elif state == LINE_C:
            i += 1
        elif state == BLOCK_C:
            if ch == "*" and nxt == "/":
                state = NORMAL
                i += 2
                continue
            i += 1
    if state in (STRING, CHAR):
        r.valid, r.why = False, "unterminated literal"
    if state == BLOCK_C:
        r.valid, r.why = False, "unterminated comment"
    if cur_lines or cur_first is not None:
        logical_lines.append((cur_lines, cur_first == "#"))
    if m and chars[-1][0] != "\n":
        eol_states[chars[-1][1]] = state
    for members, is_dir in logical_lines:
        if is_dir:
            directive.update(members)
    r.counted = sorted(counted)
    r.directive = directive
    r.eol_states = eol_states
    r.spliced = spliced_eols
    r.logical = logical_lines
    return r


STATE_NAMES = ["NORMAL", "STRING", "CHAR", "LINE_COMMENT", "BLOCK_COMMENT"]
