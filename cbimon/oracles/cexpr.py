"""
cexpr -- reference evaluator for C preprocessor #if expressions (ISO C17
6.10.1 / 6.6; DESIGN.md appendix A.1).  Shares no code with /repo.

Values are (v, unsigned) with v a Python int already reduced to the type's
range.  Anything C leaves undefined, or that a compiler must diagnose, raises
Undefined; syntax problems raise Malformed.  Laziness of && || ?: is honoured:
an Undefined operand that C does not evaluate does not propagate.
"""

import re

M64 = (1 << 64) - 1
IMAX = (1 << 63) - 1
IMIN = -(1 << 63)


class Undefined(Exception):
    pass


class Malformed(Exception):
    pass


TOKEN = re.compile(r"""
    (?P<ws>\s+)
  | (?P<num>\.?[0-9](?:[eEpP][+-]|[0-9a-zA-Z_.])*)
  | (?P<id>[^\W\d]\w*)                    # identifiers may hold letters outside ASCII (C11 annex D; gcc accepts UTF-8)
  | (?P<chr>(?:u8|u|U|L)?'(?:\\.|[^'\\\n])*')
  | (?P<str>"(?:\\.|[^"\\\n])*")
  | (?P<op>\|\||&&|<<|>>|<=|>=|==|!=|[-+!~*/%<>&^|?:(),])
  | (?P<other>.)
""", re.X)


def tokenize(text):
    out = []
    for m in TOKEN.finditer(text):
        k = m.lastgroup
        if k == "ws":
            continue
        out.append((k, m.group()))
    return out


SIMPLE_ESC = {"n": 10, "t": 9, "r": 13, "a": 7, "b": 8, "f": 12, "v": 11, "0": 0, "\\": 92, "'": 39, '"': 34, "?": 63}


def char_value(spelling):
    body = spelling[spelling.index("'") + 1:-1]
    if spelling[0] != "'":
        raise Undefined("prefixed character constant")
    if not body:
        raise Malformed("empty character constant")
    if body[0] != "\\":
        if len(body) != 1:
            raise Undefined("multi-character constant")
        v = ord(body)
    else:
        e = body[1:]
        if e[0] in "01234567":
            m = re.fullmatch(r"[0-7]{1,3}", e)
            if not m:
                raise Undefined("multi-character constant")
            v = int(e, 8)
        elif e[0] == "x":
            if not re.fullmatch(r"x[0-9a-fA-F]+", e):
                raise Malformed("bad hex escape")
            v = int(e[1:], 16)
        elif len(e) == 1 and e in SIMPLE_ESC:
            v = SIMPLE_ESC[e]
        else:
            raise Undefined("unknown escape")
    if v >= 0x80:
        raise Undefined("character value depends on signedness of char")
    return (v, False)


NUM = re.compile(r"(0[xX][0-9a-fA-F]+|0[bB][01]+|0[0-7]*|[1-9][0-9]*)([uUlL]*)$")


def number_value(spelling):
    m = NUM.match(spelling)
    if not m:
        raise Malformed(f"bad number {spelling}")
    digits, suffix = m.groups()
    s = suffix.lower()
    if s not in ("", "u", "l", "ul", "lu", "ll", "ull", "llu"):
        raise Malformed(f"bad suffix {suffix}")
    if "ll" in s and ("lL" in suffix or "Ll" in suffix):
        raise Malformed("mixed-case ll")
    if digits[:2] in ("0x", "0X"):
        v, dec = int(digits[2:], 16), False
    elif digits[:2] in ("0b", "0B"):
        v, dec = int(digits[2:], 2), False
    elif digits[0] == "0":
        v, dec = int(digits, 8) if len(digits) > 1 else 0, False
    else:
        v, dec = int(digits), True
    if v > M64:
        raise Undefined("constant too large")
    uns = "u" in s
    if not uns and v > IMAX:
        if dec:
            raise Undefined("decimal constant only fits unsigned (diagnosed)")
        uns = True
    return (v, uns)


# ------------------------------------------------------------------ parser --
BINPREC = {"||": 1, "&&": 2, "|": 3, "^": 4, "&": 5, "==": 6, "!=": 6, "<": 7, "<=": 7, ">": 7, ">=": 7,
           "<<": 8, ">>": 8, "+": 9, "-": 9, "*": 10, "/": 10, "%": 10}


class Parser:
    def __init__(self, toks):
        self.t = toks
        self.i = 0

    def peek(self):
        return self.t[self.i] if self.i < len(self.t) else (None, None)

    def next(self):
        tok = self.peek()
        self.i += 1
        return tok

    def expect(self, v):
        k, s = self.next()
        if s != v:
            raise Malformed(f"expected {v} got {s}")

    def parse(self):
        e = self.cond()
        if self.i != len(self.t):
            raise Malformed("trailing tokens")
        return e

    def cond(self):
        c = self.binary(1)
        if self.peek()[1] == "?":
            self.next()
            a = self.cond_comma()
            self.expect(":")
            b = self.cond()
            return ("cond", c, a, b)
        return c

    def cond_comma(self):
        return self.cond()

    def binary(self, minp):
        lhs = self.unary()
        while True:
            k, s = self.peek()
            if k != "op" or s not in BINPREC or BINPREC[s] < minp:
                return lhs
            self.next()
            rhs = self.binary(BINPREC[s] + 1)
            lhs = ("bin", s, lhs, rhs)

    def unary(self):
        k, s = self.peek()
        if k == "op" and s in ("+", "-", "!", "~"):
            self.next()
            return ("un", s, self.unary())
        return self.primary()

    def primary(self):
        k, s = self.next()
        if k == "num":
            return ("num", s)
        if k == "chr":
            return ("chr", s)
        if k == "id":
            if self.peek()[1] == "(":
                raise Malformed("function-like call in #if")
            return ("id", s)
        if s == "(":
            e = self.cond()
            self.expect(")")
            return ("par", e)
        raise Malformed(f"unexpected {s!r}")


def expand(text, macros, _depth=0):
    """Token-level expansion of object-like macros; `defined` operands are protected.
    macros: {name: body-text}.  Returns list of tokens."""
    toks = tokenize(text)
    return _expand_tokens(toks, macros, frozenset())


def _expand_tokens(toks, macros, hide):
    out = []
    i = 0
    while i < len(toks):
        k, s = toks[i]
        if k == "id" and s == "defined":
            # defined X | defined ( X )
            j = i + 1
            if j < len(toks) and toks[j][1] == "(":
                if j + 2 < len(toks) and toks[j + 1][0] == "id" and toks[j + 2][1] == ")":
                    out.append(("num", "1" if toks[j + 1][1] in macros else "0"))
                    i = j + 3
                    continue
                raise Malformed("bad defined")
            if j < len(toks) and toks[j][0] == "id":
                out.append(("num", "1" if toks[j][1] in macros else "0"))
                i = j + 1
                continue
            raise Malformed("bad defined")
        if k == "id" and s in macros and s not in hide:
            body = tokenize(macros[s])
            if any(t == ("id", "defined") for t in body):
                raise Undefined("defined produced by expansion")
            out.extend(_expand_tokens(body, macros, hide | {s}))
            i += 1
            continue
        out.append((k, s))
        i += 1
    return out


def parse_text(text, macros=None):
    toks = expand(text, macros or {})
    if not toks:
        raise Malformed("#if with no expression")
    for k, s in toks:
        if k in ("other", "str"):
            raise Malformed(f"bad token {s}")
    return Parser(toks).parse()


# --------------------------------------------------------------- evaluator --
def conv(a, b):
    """Usual arithmetic conversions."""
    (x, ux), (y, uy) = a, b
    if ux or uy:
        return x & M64, y & M64, True
    return x, y, False


def wrap(v, uns):
    if uns:
        return (v & M64, True)
    if v > IMAX or v < IMIN:
        raise Undefined("signed overflow")
    return (v, False)


def ev(n):
    t = n[0]
    if t == "num":
        return number_value(n[1])
    if t == "chr":
        return char_value(n[1])
    if t == "id":
        return (0, False)
    if t == "par":
        return ev(n[1])
    if t == "un":
        op = n[1]
        v, u = ev(n[2])
        if op == "+":
            return (v, u)
        if op == "-":
            return wrap(-v, u)
        if op == "~":
            return ((~v) & M64, True) if u else (~v, False)
        if op == "!":
            return (0 if v else 1, False)
    if t == "cond":
        c = ev(n[1])
        # result type: usual conversions of both arms, even the unevaluated one
        pick = n[2] if c[0] else n[3]
        other = n[3] if c[0] else n[2]
        v, u = ev(pick)
        try:
            ou = ev(other)[1]
        except Undefined:
            ou = _static_unsigned(other)
        if u or ou:
            return (v & M64, True)
        return (v, False)
    if t == "bin":
        op = n[1]
        if op == "&&":
            a = ev(n[2])
            if not a[0]:
                _syntax_only(n[3])
                return (0, False)
            return (1 if ev(n[3])[0] else 0, False)
        if op == "||":
            a = ev(n[2])
            if a[0]:
                _syntax_only(n[3])
                return (1, False)
            return (1 if ev(n[3])[0] else 0, False)
        a, b = ev(n[2]), ev(n[3])
        if op in ("<<", ">>"):
            (x, ux), (y, uy) = a, b
            # shift count: negative (signed) or >= 64 is undefined
            if (not uy and y < 0) or y >= 64:
                raise Undefined("shift count")
            if op == "<<":
                if ux:
                    return ((x << y) & M64, True)
                if x < 0:
                    raise Undefined("left shift of negative")
                return wrap(x << y, False)
            return (x >> y, ux)
        x, y, u = conv(a, b)
        if op in ("==", "!=", "<", "<=", ">", ">="):
            r = {"==": x == y, "!=": x != y, "<": x < y, "<=": x <= y, ">": x > y, ">=": x >= y}[op]
            return (1 if r else 0, False)
        if op == "+":
            return wrap(x + y, u)
        if op == "-":
            return wrap(x - y, u)
        if op == "*":
            return wrap(x * y, u)
        if op in ("/", "%"):
            if y == 0:
                raise Undefined("division by zero")
            if not u and x == IMIN and y == -1:
                raise Undefined("INT64_MIN / -1")
            q = abs(x) // abs(y)
            if (x < 0) != (y < 0):
                q = -q
            if op == "/":
                return wrap(q, u)
            return wrap(x - q * y, u)
        if op == "&":
            return wrap(x & y, u) if u else (x & y, False)
        if op == "|":
            return wrap(x | y, u) if u else (x | y, False)
        if op == "^":
            return wrap(x ^ y, u) if u else (x ^ y, False)
    raise Malformed(f"cannot evaluate {n!r}")


def _syntax_only(n):
    """Unevaluated operand: literals must still be lexically valid (gcc checks them)."""
    t = n[0]
    if t == "num":
        try:
            number_value(n[1])
        except Undefined:
            raise
    elif t == "chr":
        try:
            char_value(n[1])
        except Undefined:
            raise
    elif t in ("par",):
        _syntax_only(n[1])
    elif t == "un":
        _syntax_only(n[2])
    elif t == "bin":
        _syntax_only(n[2])
        _syntax_only(n[3])
    elif t == "cond":
        _syntax_only(n[1])
        _syntax_only(n[2])
        _syntax_only(n[3])


def _static_unsigned(n):
    """Signedness of an operand that cannot be evaluated (UB inside an unevaluated arm)."""
    t = n[0]
    if t == "num":
        return number_value(n[1])[1]
    if t in ("chr", "id"):
        return False
    if t == "par":
        return _static_unsigned(n[1])
    if t == "un":
        return False if n[1] == "!" else _static_unsigned(n[2])
    if t == "cond":
        return _static_unsigned(n[2]) or _static_unsigned(n[3])
    if t == "bin":
        if n[1] in ("&&", "||", "==", "!=", "<", "<=", ">", ">="):
            return False
        if n[1] in ("<<", ">>"):
            return _static_unsigned(n[2])
        return _static_unsigned(n[2]) or _static_unsigned(n[3])
    return False


def evaluate(text, macros=None):
    """Returns (value, unsigned). Raises Undefined / Malformed."""
    return ev(parse_text(text, macros))


def truth(text, macros=None):
    return evaluate(text, macros)[0] != 0


def literal(v, unsigned):
    """Spell a value as a C constant expression of that type."""
    if unsigned:
        return f"{v}u"
    if v == IMIN:
        return "(-9223372036854775807-1)"
    if v < 0:
        return f"(-{-v})"
    return str(v)
