"""
fscan -- reference scanner for free-form Fortran line classes (Fortran 2018
6.3.2; DESIGN.md appendix A.3).

scan(text) -> (valid, counted lines sorted, directive lines set, notes)

A physical line is counted iff it holds statement text, a directive-sentinel
comment (`!` letters* `$` ...), or belongs to a preprocessor directive (`#`
first non-blank, with backslash continuation lines).  Character context is
carried across `&` continuation; `!` inside a literal is text; doubled quotes
stay inside the literal; backslash is an ordinary character.
"""

import re

SENTINEL = re.compile(r"^![A-Za-z]*\$")


def scan(text):
    lines = text.split("\n")
    if lines and lines[-1] == "":
        lines.pop()
    counted = []
    directive = set()
    in_char = None        # quote character of an open literal continued on the next line
    continuing = False    # previous statement line ended with '&'
    in_dir = False        # inside a backslash-continued preprocessor directive
    valid = True
    notes = set()
    in_dir_comment = False    # inside a C comment that was opened on a directive line and not closed there

    def open_comment_at_end(t, already_open):
        """Does directive text `t` end inside a /* */ comment?  (double-quoted strings are skipped)"""
        k, m = 0, len(t)
        opened = already_open
        while k < m:
            if opened:
                e = t.find("*/", k)
                if e < 0:
                    return True
                opened = False
                k = e + 2
            elif t[k] == '"':
                e = t.find('"', k + 1)
                k = m if e < 0 else e + 1
            elif t.startswith("/*", k):
                opened = True
                k += 2
            else:
                k += 1
        return opened

    for no, raw in enumerate(lines, 1):
        if in_dir_comment:
            # the preprocessor blanks the comment: its lines hold nothing; what follows the closing `*/` still belongs
            # to the directive
            e = raw.find("*/")
            if e < 0:
                continue
            rest = raw[e + 2:]
            if rest.strip():
                counted.append(no)
                directive.add(no)
            in_dir_comment = open_comment_at_end(rest, False)
            in_dir = rest.rstrip().endswith("\\") and not in_dir_comment
            notes.add("c-comment-from-directive-line-to-later-line")
            continue
        if in_dir:
            if raw.strip():
                counted.append(no)
                directive.add(no)
            in_dir_comment = open_comment_at_end(raw, False)
            in_dir = raw.rstrip().endswith("\\") and not in_dir_comment
            continue
        stripped = raw.strip()
        # (the preprocessor runs first and knows nothing about Fortran: a line whose first character is `#` is a directive
        # also between the pieces of a continued character literal; the literal's state is left as it is)
        if stripped.startswith("#"):
            counted.append(no)
            directive.add(no)
            in_dir_comment = open_comment_at_end(raw, False)
            in_dir = raw.rstrip().endswith("\\") and not in_dir_comment
            notes.add("directive")
            continue
        i = 0
        n = len(raw)
        has_text = False
        sentinel = False
        amp_end = False
        if in_char is not None or continuing:
            # optional leading '&' of a continuation line
            j = 0
            while j < n and raw[j] in " \t":
                j += 1
            if j < n and raw[j] == "&":
                i = j + 1
                notes.add("leading-&")
            elif in_char is not None and j < n and raw[j] != "!":
                # a literal continued without leading '&' : text continues at the first column
                i = 0
            if in_char is not None and (j >= n or raw[j] == "!"):
                # F2018 6.3.2.4: a continued character context resumes on the next line that is not a comment (blank
                # lines count as comment lines); the lines in between hold no statement text.  A directive sentinel
                # there would be compiler-specific: outside the premise.
                if j < n and SENTINEL.match(raw[j:]):
                    valid = False
                notes.add("comment-in-literal-continuation" if j < n else "blank-in-literal-continuation")
                continue
            if in_char is None and (j >= n or raw[j] == "!"):
                # blank or comment line inside a continued statement
                if j < n and SENTINEL.match(raw[j:]):
                    sentinel = True
                    notes.add("sentinel")
                if j < n:
                    notes.add("comment-in-continuation")
                elif continuing:
                    notes.add("blank-in-continuation")
                if sentinel:
                    counted.append(no)
                continue
        while i < n:
            ch = raw[i]
            if in_char is not None:
                if ch == in_char:
                    if i + 1 < n and raw[i + 1] == in_char:
                        has_text = True
                        i += 2
                        notes.add("doubled-quote")
                        continue
                    in_char = None
                    has_text = True
                    i += 1
                    continue
                if ch == "&" and raw[i + 1:].strip() == "":
                    amp_end = True
                    notes.add("literal-continued")
                    i = n
                    break
                if ch in "!&/":
                    notes.add("special-char-in-literal")
                has_text = True
                i += 1
                continue
            if ch in " \t":
                i += 1
                continue
            if ch in "'\"":
                in_char = ch
                has_text = True
                i += 1
                continue
            if ch == "!":
                if SENTINEL.match(raw[i:]):
                    sentinel = True
                    notes.add("sentinel")
                else:
                    notes.add("comment")
                break
            if ch == "&":
                rest = raw[i + 1:].strip()
                if rest == "" or rest.startswith("!"):
                    amp_end = True
                    notes.add("continuation")
                    if rest.startswith("!"):
                        notes.add("comment-after-&")
                    break
                has_text = True
                i += 1
                continue
            has_text = True
            i += 1
        if in_char is not None and not amp_end:
            valid = False
            in_char = None
        continuing = amp_end and in_char is None
        if amp_end and in_char is not None:
            continuing = False
        if has_text or sentinel:
            counted.append(no)
    if in_char is not None or in_dir:
        valid = False
    return valid, counted, directive, notes
