"""
argmodel -- reference driver-option scanner (DESIGN.md appendix A.5).

scan(argv_without_argv0) -> (defines, include_paths, include_files), each in
command-line order.  -D / -I / -isystem / -include take the rest of the token
as value if non-empty, else the next token.  The catalogue says which
unmodelled flags consume the next token.
"""

MODELLED = ["-D", "-I", "-isystem", "-include"]

# flag -> number of following tokens it consumes (exact spelling)
SEPARATE = {
    "-o": 1, "-MF": 1, "-MT": 1, "-MQ": 1, "-x": 1, "-ccbin": 1, "-Xcompiler": 1, "-Xlinker": 1, "-Xpreprocessor": 1,
    "-Xassembler": 1, "-Xclang": 1, "-arch": 1, "-idirafter": 1, "-iquote": 1, "-L": 1, "-l": 1, "-target": 1,
    "--param": 1, "-T": 1, "-u": 1, "-z": 1, "-aux-info": 1, "-dumpbase": 1, "-cxx-isystem": 1, "-isysroot": 1,
    "-iprefix": 1, "-iwithprefix": 1, "-imacros": 1, "-U": 1, "-gencode": 1, "--gpu-architecture": 1,
    "-mllvm": 1, "-Xcudafe": 1, "-Xptxas": 1, "--compiler-bindir": 1, "-odir": 1, "-B": 1, "-Xarch_host": 1,
    "-include-pch": 1, "-dumpdir": 1, "-wrapper": 1, "-framework": 1, "-rdynamic-list": 1,
}

# standalone / joined flags (consume nothing)
STANDALONE = [
    "-c", "-g", "-g3", "-ggdb", "-g1", "-gdwarf-4", "-O", "-O0", "-O2", "-O3", "-Os", "-Ofast", "-Og", "-Wall", "-Wextra",
    "-Werror", "-Wno-unused", "-Wl,-rpath,/x", "-Wl,--as-needed", "-Wp,-MD,x.d", "-std=c++17", "-std=gnu11", "--std=c++14",
    "-march=native", "-mtune=skylake", "-mavx2", "-m64", "-fPIC", "-fpic", "-fopenmp-simd", "-ffast-math", "-fno-exceptions",
    "-fvisibility=hidden", "-fsanitize=address", "-funroll-loops", "-pthread", "-pipe", "-w", "-v", "-S", "-E", "-M", "-MD",
    "-MMD", "-MP", "-shared", "-static", "-nostdinc", "-pedantic", "-ansi", "-stdlib=libc++", "-ccbin=g++", "-lm", "-lpthread",
    "-L/usr/lib", "-Lbuild", "@rsp.txt", "-Uold", "-UFOO", "-iquotequote", "-idirafterlate", "-xc++", "-ooutput.o", "-oa.out",
    "--sysroot=/sr", "-fdiagnostics-color=always", "-Qunused-arguments", "-qopenmp-simd", "-xHost", "-ipo", "-fp-model=precise",
    "--expt-relaxed-constexpr", "-rdc=true", "--use_fast_math", "-arch=sm_80", "-gencode=arch=compute_70,code=sm_70",
    "-Xcompiler=-fPIC", "--ptxas-options=-v", "-fsycl-unnamed-lambda", "-fno-sycl-id-queries-fit-in-int", "-nocudalib",
    "-save-temps", "-dD", "-dM", "-P", "-C", "-trigraphs", "-fmessage-length=0", "-fstack-protector-strong",
    "-iwithprefixbefore", "-coverage", "--coverage", "-pg", "-p", "-r", "-s", "-Q", "-n", "-e", "-H", "-Z", "-cpp",
]

SOURCES = ["main.c", "src/a.cpp", "/abs/path/k.cu", "x.f90", "dir with space/b.c"]

# subsets that gcc itself accepts, for validating the model against `gcc -E -dM -v`
GCC_OK_SEPARATE = ["-o", "-MF", "-MT", "-MQ", "-x", "-idirafter", "-iquote", "-L", "-U", "-imacros", "-Xlinker", "-u", "-T"]
GCC_OK_STANDALONE = ["-c", "-g", "-g3", "-ggdb", "-g1", "-O", "-O0", "-O2", "-O3", "-Os", "-Og", "-Wall", "-Wextra", "-Wno-unused",
                     "-Wl,-rpath,/x", "-std=gnu11", "-march=native", "-mavx2", "-m64", "-fPIC", "-ffast-math",
                     "-fvisibility=hidden", "-funroll-loops", "-pthread", "-pipe", "-w", "-shared", "-static", "-pedantic",
                     "-lm", "-L/usr/lib", "-Lbuild", "-UFOO", "-Uold", "-fstack-protector-strong", "-pg", "-coverage"]


def scan(args, grouped=False):
    """grouped=False: -I and -isystem values in one list in command-line order;
    grouped=True: all -I values (in order) followed by all -isystem values (in order), the order a compiler searches;
    a directory named by -I and also by -isystem is searched in its -isystem position only (gcc: "the -I option is
    ignored"; confirmed per case by the gcc runs of C04's `dupdirs` class), compared after os.path.normpath."""
    defines, paths, spaths, files = [], [], [], []
    dest = {"-D": defines, "-I": paths, "-isystem": spaths if grouped else paths, "-include": files}
    i = 0
    n = len(args)
    while i < n:
        a = args[i]
        hit = None
        # longest modelled prefix first: -include before -I? they differ in case; -isystem before -I no clash
        for flag in ("-include", "-isystem", "-D", "-I"):
            if a == flag:
                hit = (flag, None)
                break
            if a.startswith(flag) and flag in ("-D", "-I", "-isystem", "-include"):
                # joined form; make sure another catalogue flag with this prefix is not meant
                if a in SEPARATE or a in STANDALONE:
                    continue
                hit = (flag, a[len(flag):])
                break
        if a == "-U" or (a.startswith("-U") and len(a) > 2):
            # -U NAME / -UNAME: a compiler applies -D and -U from left to right, so the definitions of NAME given
            # so far are dropped (a later -D defines it again)
            val = a[2:] if len(a) > 2 else (args[i + 1] if i + 1 < n else None)
            if val is not None:
                import re as _re
                defines[:] = [d for d in defines if _re.split(r"[=(]", d, maxsplit=1)[0] != val]
            i += 1 if len(a) > 2 else 2
            continue
        if hit:
            flag, val = hit
            if val is None:
                if i + 1 < n:
                    dest[flag].append(args[i + 1])
                    i += 2
                    continue
                i += 1
                continue
            dest[flag].append(val)
            i += 1
            continue
        if a in SEPARATE:
            i += 1 + SEPARATE[a]
            continue
        i += 1
    if grouped:
        import os
        sysset = {os.path.normpath(x) for x in spaths}
        paths = [x for x in paths if os.path.normpath(x) not in sysset]
    return defines, paths + spaths, files
