"""
cbimon.hooks -- monitors installed from the harness on the imported CBI
modules (DESIGN.md section 4).  Nothing in /repo is edited: the code reaches
all wrapped objects through attribute look-ups.

    with hooks.monitor() as ev:
        state = finder.find(...)
    ev.events      list of tuples, in call order
    ev.platforms   RecordingPlatform instances in construction order
    ev.logs        (levelname, logger, message)
    ev.counts      Counter of hook invocations
"""

import collections
import contextlib
import logging
import os

GUARD = "CBI_VERIF"


def enabled():
    return os.environ.get(GUARD, "") == "1"


class Events:
    def __init__(self):
        self.events = []
        self.platforms = []
        self.logs = []
        self.counts = collections.Counter()
        self.expand_steps = 0
        self.expand_max_depth = 0
        self.expand_overflow = 0
        self.assoc_depth = 0
        self.tu_snapshots = []

    def warnings(self):
        return [m for lv, _, m in self.logs if lv == "WARNING"]

    def errors(self):
        return [m for lv, _, m in self.logs if lv in ("ERROR", "CRITICAL")]


class _Handler(logging.Handler):
    def __init__(self, ev):
        super().__init__(level=logging.DEBUG)
        self.ev = ev

    def emit(self, record):
        try:
            msg = record.getMessage()
        except Exception:
            msg = str(record.msg)
        self.ev.logs.append((record.levelname, record.name, msg))
        self.ev.counts["H-log"] += 1


def macro_spelling(macro):
    """Spelling of a codebasin Macro: (args|None, 'tok tok tok')."""
    args = getattr(macro, "args", None)
    if args is not None:
        args = list(args)
        if getattr(macro, "variadic", False):
            pass
    rep = macro.replacement
    if isinstance(rep, list):
        body = " ".join(str(t.token) if not type(t).__name__ == "StringConstant" else '"%s"' % t.token
                        for t in rep)
    else:
        body = str(rep)
    return args, body


@contextlib.contextmanager
def monitor(platform=True, evals=True, assoc=True, expand=False, logs=True, log_level=logging.DEBUG):
    """Install the monitors; yields Events."""
    import codebasin.platform as cplat
    import codebasin.preprocessor as pp
    import codebasin.finder as finder

    ev = Events()
    undo = []

    if platform:
        Base = cplat.Platform

        class RecordingPlatform(Base):
            def __init__(self, name, root):
                super().__init__(name, root)
                self._cbimon_index = len(ev.platforms)
                ev.platforms.append(self)
                ev.counts["H-platform"] += 1
                ev.events.append(("platform", name))

            def define(self, identifier, macro):
                before = identifier in self._definitions
                super().define(identifier, macro)
                ev.counts["H-platform"] += 1
                ev.events.append(("define", self._cbimon_index, identifier, not before))

            def undefine(self, identifier):
                before = identifier in self._definitions
                super().undefine(identifier)
                ev.counts["H-platform"] += 1
                ev.events.append(("undef", self._cbimon_index, identifier, before))

            def add_include_to_skip(self, fn):
                super().add_include_to_skip(fn)
                ev.counts["H-platform"] += 1
                ev.events.append(("once", self._cbimon_index, fn))

            def find_include_file(self, filename, this_path, is_system_include=False):
                res = super().find_include_file(filename, this_path, is_system_include)
                ev.counts["H-platform"] += 1
                ev.events.append(("inc", self._cbimon_index, filename, this_path, bool(is_system_include), res))
                return res

            def snapshot(self):
                return {"defs": sorted(self._definitions), "skip": list(self._skip_includes),
                        "memo": dict(self.found_incl)}

        cplat.Platform = RecordingPlatform
        undo.append(lambda: setattr(cplat, "Platform", Base))
        # finder imported the class by name too (only for annotations) -- keep in sync
        if getattr(finder, "Platform", None) is Base:
            finder.Platform = RecordingPlatform
            undo.append(lambda: setattr(finder, "Platform", Base))

    if evals:
        def wrap_eval(cls):
            orig = cls.__dict__.get("evaluate_for_platform")
            if orig is None:
                return

            def evaluate_for_platform(self, **kwargs):
                ev.counts["H-eval"] += 1
                fn = kwargs.get("filename")
                try:
                    r = orig(self, **kwargs)
                except Exception as e:
                    ev.events.append(("eval", type(self).__name__, fn, self.start_line,
                                      f"!{type(e).__name__}"))
                    raise
                ev.events.append(("eval", type(self).__name__, fn, self.start_line, bool(r) if r is not None else None))
                return r

            cls.evaluate_for_platform = evaluate_for_platform
            undo.append(lambda: setattr(cls, "evaluate_for_platform", orig))

        for name in ("IfNode", "DefineNode", "UndefNode", "IncludeNode", "PragmaNode"):
            wrap_eval(getattr(pp, name))

    if assoc:
        PS = finder.ParserState
        o_assoc, o_insert = PS.associate, PS.insert_file

        def associate(self, filename, platform):
            ev.counts["H-assoc"] += 1
            depth = ev.assoc_depth
            snap = None
            if depth == 0 and hasattr(platform, "snapshot"):
                snap = platform.snapshot()
                ev.tu_snapshots.append((filename, getattr(platform, "_cbimon_index", None), snap))
            ev.events.append(("assoc", depth, filename, getattr(platform, "_cbimon_index", None)))
            ev.assoc_depth += 1
            try:
                return o_assoc(self, filename, platform)
            finally:
                ev.assoc_depth -= 1

        def insert_file(self, fn, language=None):
            ev.counts["H-assoc"] += 1
            new = self._get_realpath(fn) not in self.trees
            ev.events.append(("insert", fn, new))
            return o_insert(self, fn, language)

        PS.associate, PS.insert_file = associate, insert_file
        undo.append(lambda: (setattr(PS, "associate", o_assoc), setattr(PS, "insert_file", o_insert)))

    if expand:
        ME = pp.MacroExpander
        o_push, o_expand = ME.push, ME.expand

        def push(self, tokens, ident=None):
            ev.expand_steps += 1
            ev.counts["H-expand"] += 1
            try:
                return o_push(self, tokens, ident)
            finally:
                ev.expand_max_depth = max(ev.expand_max_depth, len(self.parser_stack))

        def expand_(self, tokens, ident=None, pre_expand=False):
            ev.expand_steps += 1
            ev.counts["H-expand"] += 1
            before = len(self.parser_stack)
            r = o_expand(self, tokens, ident, pre_expand)
            if (before > 0 or True) and len(r) == 1 and getattr(r[0], "line", None) == "EXPANSION" \
                    and getattr(r[0], "col", None) == -1 and str(r[0].token) == "0":
                ev.expand_overflow += 1
            return r

        ME.push, ME.expand = push, expand_
        undo.append(lambda: (setattr(ME, "push", o_push), setattr(ME, "expand", o_expand)))

    handler = None
    lg = logging.getLogger("codebasin")
    old_level = lg.level
    old_disable = logging.root.manager.disable
    if logs:
        handler = _Handler(ev)
        lg.addHandler(handler)
        lg.setLevel(log_level)
        logging.disable(logging.NOTSET)
        old_prop = lg.propagate
        lg.propagate = False
    try:
        yield ev
    finally:
        for u in reversed(undo):
            u()
        if handler:
            lg.removeHandler(handler)
            lg.setLevel(old_level)
            lg.propagate = old_prop
            logging.disable(old_disable)
