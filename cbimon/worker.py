"""Shard worker: `python -m cbimon.worker PROP shard nshards tier seed out scratch`
or `python -m cbimon.worker --replay PROP record.json scratch`."""

import faulthandler
import json
import os
import sys
import traceback
import warnings


def main():
    warnings.simplefilter("ignore", DeprecationWarning)
    from cbimon import core

    if sys.argv[1] == "--replay":
        prop, path, scratch = sys.argv[2:5]
        mod = core.load_prop(prop)
        with open(path) as f:
            record = json.load(f)
        ctx = core.Ctx(prop, 0, 1, record.get("tier", "quick"), record.get("seed", 0), scratch)
        os.chdir(scratch)
        res = mod.replay(record, ctx)
        print(json.dumps(res, indent=1, default=str))
        if res.get("verdict") == "violated":
            print(f"VIOLATION property={prop} replay={path}")
            sys.exit(1)
        sys.exit(0)

    prop, shard, nshards, tier, seed, out, scratch = sys.argv[1:8]
    # Generous wall-clock watchdog inside the worker: dump stacks, the parent decides.
    faulthandler.dump_traceback_later(float(os.environ.get("CBIMON_DUMP_AFTER", "3000")), exit=False)
    mod = core.load_prop(prop)
    ctx = core.Ctx(prop, int(shard), int(nshards), tier, int(seed), scratch)
    try:
        mod.run_shard(ctx)
    except Exception:
        ctx.acc.inconc("harness exception in shard %s: %s" % (shard, traceback.format_exc()[-2500:]))
    ctx.acc.dump(out)


if __name__ == "__main__":
    main()
