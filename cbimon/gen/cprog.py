"""
Generators / renderers for C translation units made of nested conditional
chains, object-like #define/#undef and marker code lines (C01, reused by
C08/C10/C17/C18).

AST (JSON-able lists):
    ["code"]
    ["define", name, value-or-None]      value "" == defined empty
    ["undef", name]
    ["hidden", text]                     a directive-looking line inside a block comment between two code lines
    ["chain", [[kw, expr, body], ...]]   kw in if/ifdef/ifndef/elif/else; expr None for else
A body is a list of items.
"""

import itertools


class Rendered:
    def __init__(self):
        self.text_lines = []      # physical lines (without newline)
        self.items = []           # dict(kind, lines=[...], group, marker)
        self.groups = {0: {"parent": None, "marker": None, "ctl": None}}
        self.n_chains = 0
        self.max_depth = 0

    @property
    def text(self):
        return "\n".join(self.text_lines) + "\n"


def render(body, prefix="m", style=None, rng=None):
    """Render an AST. style: None or rng-driven decoration (continuations, comments)."""
    r = Rendered()
    gid_counter = [0]

    def emit(kind, lines_text, group, **kw):
        start = len(r.text_lines) + 1
        r.text_lines.extend(lines_text)
        it = {"kind": kind, "lines": list(range(start, start + len(lines_text))), "group": group}
        it.update(kw)
        r.items.append(it)
        return it

    def deco_directive(text):
        """Optionally spread a directive over a continuation line / add a comment."""
        if rng is None or style is None:
            return [text]
        x = rng.random()
        if x < style.get("cont", 0) and " " in text.strip():
            head, _, tail = text.rpartition(" ")
            if head.strip() not in ("#", ""):
                return [head + " \\", "    " + tail]
        if x < style.get("cont", 0) + 0.04 and " " in text.strip():
            head, _, tail = text.rpartition(" ")
            if head.strip() not in ("#", ""):
                # a block comment inside the directive whose first line ends in '*' (tokens follow on the next line)
                return [head + " /* note *", " * more */ " + tail]
        if x < style.get("cont", 0) + style.get("comment", 0):
            return [text + rng.choice(["  /* c */", " // c", " /* a */ /* b */"])]
        if x < style.get("cont", 0) + style.get("comment", 0) + style.get("indent", 0):
            return [rng.choice(["  ", "\t", " # "[0:1]]) + text.replace("#", rng.choice(["#", "# ", "#  "]), 1)]
        return [text]

    def code(group):
        n = len(r.text_lines) + 1
        name = f"cbi_m_{prefix}_{n}"
        emit("code", [name + ";"], group, marker=name)
        if r.groups[group]["marker"] is None:
            r.groups[group]["marker"] = name
        return name

    def do_body(items, group, depth):
        r.max_depth = max(r.max_depth, depth)
        if items and items[0][0] == "bare":
            items = items[1:]           # no code line is forced in front (a header that is nothing but its include guard)
        elif items and items[0][0] != "code":
            code(group)
        for it in items:
            k = it[0]
            if k == "code":
                code(group)
            elif k == "define":
                v = it[2]
                txt = f"#define {it[1]}" + ("" if v is None or v == "" else f" {v}")
                emit("def", deco_directive(txt), group, name=it[1], value=v, op="define")
            elif k == "undef":
                emit("def", deco_directive(f"#undef {it[1]}"), group, name=it[1], op="undef")
            elif k == "raw":
                emit(it[2], [it[1]], group)
            elif k == "hidden":
                # ["hidden", directive-text]: a directive-looking line INSIDE a block comment that opens on a code line and
                # closes on the next code line; the middle line belongs to no item (it is neither counted nor expected)
                n1 = f"cbi_m_{prefix}_{len(r.text_lines) + 1}"
                emit("code", [n1 + "; /* disabled:"], group, marker=n1)
                r.text_lines.append(it[1])
                n3 = f"cbi_m_{prefix}_{len(r.text_lines) + 1}"
                emit("code", ["*/ " + n3 + ";"], group, marker=n3)
                if r.groups[group]["marker"] is None:
                    r.groups[group]["marker"] = n1
            elif k == "include":
                # ["include", form, spelling]  form: "q" -> "spelling", "a" -> <spelling>, "m" -> macro name
                form, sp = it[1], it[2]
                txt = "#include " + ('"%s"' % sp if form == "q" else "<%s>" % sp if form == "a" else sp)
                emit("inc", deco_directive(txt) if form != "m" else [txt], group, form=form, spelling=sp,
                     site=it[3] if len(it) > 3 else None)
            elif k == "once":
                emit("other", ["#pragma once"], group)
            elif k == "directive":
                emit("other", [it[1]], group)
            elif k == "chain":
                r.n_chains += 1
                for kw, expr, sub in it[1]:
                    if kw == "else":
                        txt = "#else"
                    elif kw in ("ifdef", "ifndef"):
                        txt = f"#{kw} {expr}"
                    else:
                        txt = f"#{kw} {expr}"
                    emit("chain", deco_directive(txt), group, kw=kw, expr=expr)
                    gid_counter[0] += 1
                    g = gid_counter[0]
                    r.groups[g] = {"parent": group, "marker": None, "ctl": (kw, expr)}
                    do_body(sub, g, depth + 1)
                emit("chain", deco_directive("#endif"), group, kw="endif", expr=None)
            else:
                raise ValueError(k)

    do_body(body, 0, 0)
    if r.groups[0]["marker"] is None:
        # nothing but a guard at top level: the file is reached iff the first code line inside the guard is
        first = next((it["marker"] for it in r.items if it["kind"] == "code"), None)
        r.groups[0]["marker"] = first
    return r


def expected_lines(r, live_markers, top_by_marker=False):
    """Lines a conforming preprocessor does not skip (+ directive rule of C01), given gcc's markers.
    top_by_marker: the file is a header -- its top-level group is live iff its first marker is."""
    live = set(live_markers)

    def group_live(g):
        if g == 0 and not top_by_marker:
            return True
        m = r.groups[g]["marker"]
        if m is None:
            return None
        return m in live

    exp = set()
    unknown = False
    for it in r.items:
        if it["kind"] == "code":
            if it["marker"] in live:
                exp.update(it["lines"])
        else:
            gl = group_live(it["group"])
            if gl is None:
                unknown = True
            elif gl:
                exp.update(it["lines"])
    return exp, unknown


# ------------------------------------------------------------ enumeration --
CHAIN_TYPES = [(ne, he) for ne in (0, 1, 2) for he in (0, 1)]


def enum_forests(max_chains, max_depth, max_width=3):
    """All forests of chains with <= max_chains chains in total and nesting <= max_depth.
    Yields shape = list of chains; chain = (n_elif, has_else, [shape per branch])."""

    def forests(budget, depth):
        # list of (shape, used)
        yield [], 0
        if budget == 0 or depth == 0:
            return
        for first, used1 in chains(budget, depth):
            for rest, used2 in forests(budget - used1, depth):
                if len(rest) + 1 > max_width:
                    continue
                yield [first] + rest, used1 + used2

    def chains(budget, depth):
        for ne, he in CHAIN_TYPES:
            nb = 1 + ne + he
            for subs, used in branch_tuples(nb, budget - 1, depth - 1):
                yield (ne, he, subs), used + 1

    def branch_tuples(nb, budget, depth):
        if nb == 0:
            yield [], 0
            return
        for f, u in forests(budget, depth):
            for rest, u2 in branch_tuples(nb - 1, budget - u, depth):
                yield [f] + rest, u + u2

    for shape, used in forests(max_chains, max_depth):
        if used >= 1:
            yield shape


def shape_to_ast(shape):
    """Assign distinct control names K0.. to every condition; returns (ast body, n_conditions)."""
    counter = itertools.count()
    chain_no = itertools.count()

    def body(sh):
        out = [["code"]]
        for ch in sh:
            out.append(chain(ch))
            out.append(["code"])
        return out

    def chain(ch):
        ne, he, subs = ch
        c = next(chain_no)
        branches = []
        k = next(counter)
        form = c % 3
        if form == 0:
            branches.append(["if", f"defined(K{k})", body(subs[0])])
        elif form == 1:
            branches.append(["ifdef", f"K{k}", body(subs[0])])
        else:
            branches.append(["ifndef", f"K{k}", body(subs[0])])
        for i in range(ne):
            k = next(counter)
            e = [f"defined(K{k})", f"defined K{k}", f"!defined(K{k})"][(c + i) % 3]
            branches.append(["elif", e, body(subs[1 + i])])
        if he:
            branches.append(["else", None, body(subs[1 + ne])])
        return ["chain", branches]

    b = body(shape)
    return b, next(counter)


# ----------------------------------------------------------------- random --
POOL = ["A", "B", "C", "D"]
DVALS = [None, "", "0", "1", "2", "@M"]   # None: -DN ; "": -DN= ; "@M": another pool name


def rand_expr(rng, pool=POOL, safe=True):
    X, Y = rng.choice(pool), rng.choice(pool)
    forms = [
        f"defined({X})", f"defined {X}", f"!defined({X})", f"defined ( {X} )", f"{X}", f"{X} == 1",
        f"{X} > 0", f"{X} && {Y}", f"defined({X}) || defined({Y})", f"defined({X}) && !defined({Y})",
        f"{X} + 1 == 2", f"({X})", f"!{X}", f"{X} == {Y}", f"{X} != {Y}", f"{X} >= 2 || {Y} < 1",
        "1", "0", f"({X} == 2) && defined({Y})", f"{X} * 2 > {Y}", f"{X} - {Y} == 0",
        # arithmetic corners (value, signedness, precedence, literal spellings) -- C02 decides them one by one,
        # here they steer whole groups
        f"({X} == 1) + ({Y} == 1) == 2", f"-{X} / 2 == -1", f"{X} % 2", f"{X} << 1 > 2", f"{X} ? {Y} : 0",
        f"!{X} == 1", f"~{X} < 0", f"{X} - 2 > 0u", f"010 == 8 && {X}", f"'a' == 97 || {X}", f"{X} & 1 == 1",
        f"{X} | {Y} ^ 1", f"({X}, 1)" if False else f"{X} >= 1 && {X} <= 2", f"defined {X} + defined {Y} == 2",
        f"{X} == 0x1", f"{X}L == 1l", f"2 * {X} + 1 == 3 * {Y}",
    ]
    return rng.choice(forms)


def rand_body(rng, depth, max_depth, budget, pool=POOL, p_def=0.25):
    out = []
    n = rng.randint(0, 4)
    for _ in range(n):
        if budget[0] <= 0:
            break
        x = rng.random()
        if x < 0.4:
            out.append(["code"])
            budget[0] -= 1
        elif x < 0.4 + p_def:
            nm = rng.choice(pool)
            if rng.random() < 0.6:
                out.append(["define", nm, rng.choice([None, "0", "1", "2", "1", rng.choice(pool)])])
            else:
                out.append(["undef", nm])
            budget[0] -= 1
        elif depth < max_depth:
            out.append(rand_chain(rng, depth, max_depth, budget, pool, p_def))
    return out


def rand_chain(rng, depth, max_depth, budget, pool=POOL, p_def=0.25):
    branches = []
    kw = rng.choice(["if", "if", "ifdef", "ifndef"])
    expr = rng.choice(pool) if kw != "if" else rand_expr(rng, pool)
    budget[0] -= 2
    branches.append([kw, expr, rand_body(rng, depth + 1, max_depth, budget, pool, p_def)])
    for _ in range(rng.choice([0, 0, 1, 1, 2, 3])):
        budget[0] -= 1
        branches.append(["elif", rand_expr(rng, pool), rand_body(rng, depth + 1, max_depth, budget, pool, p_def)])
    if rng.random() < 0.5:
        budget[0] -= 1
        branches.append(["else", None, rand_body(rng, depth + 1, max_depth, budget, pool, p_def)])
    return ["chain", branches]


def rand_program(rng, max_lines=60, max_depth=8, pool=POOL):
    budget = [max_lines]
    body = []
    while budget[0] > 0 and len(body) < 12:
        body.extend(rand_body(rng, 0, max_depth, budget, pool))
        if not body:
            body.append(["code"])
    return body


def rand_defines(rng, pool=POOL):
    """Returns list of -D strings (without the -D)."""
    out = []
    for nm in pool:
        x = rng.random()
        if x < 0.35:
            continue
        v = rng.choice(DVALS)
        if v is None:
            out.append(nm)
        elif v == "@M":
            other = rng.choice([p for p in pool if p != nm])
            out.append(f"{nm}={other}")
        else:
            out.append(f"{nm}={v}")
    rng.shuffle(out)
    return out
