"""
Generator of multi-directory, multi-file C code bases ("header forests") with
colliding header names, quote / angle / computed includes, guarded / #pragma
once / unguarded / toggle headers, macros that tell which copy of a header was
read, forced includes, several translation units and platforms.  Shared by
C04, C08, C10, C15, C18, C06, C14.

case = {
  "files": {relpath: ast-body},            (relative to the code-base root; "@out/..." = outside the root)
  "tus":   [{"platform": p, "file": rel, "defines": [...], "search": [[kind, reldir], ...], "includes": [spelling]}],
}
"""

import os
import re

from cbimon.gen import cprog
from cbimon.oracles import gcc

NAMES = ["x.h", "y.h", "z.h", "w.h"]
INC_DIRS = ["inc", "inc2", "sys"]


def fid(rel):
    return re.sub(r"[^A-Za-z0-9]", "_", rel)


def dbname(platform):
    """File name of a platform's compilation database; platform names may contain dots, so may the file name
    (`x.y.json`: rejected by cbi-cov before the ensure_ext repair, see known_findings.json)."""
    return platform + ".json"


def gen(rng, n_tus=None, n_platforms=None, outside=False, missing=0.0, toggles=True, subdir=True,
        forced=True, computed=True, big=False, findable=False, deep=0, casepair=False, reguard=False, dirdecoy=False, outside_tu=False, updir=False, links=False, oddnames=False, dirlinks=False, dupdirs=False, builtin_decoy=False):
    """deep=N: the first translation unit also includes a chain of N headers nested N levels deep (each level holds
    code and a macro test; the innermost one defines a macro the translation unit tests afterwards and includes
    ordinary -- possibly missing -- headers).  gcc's nesting limit is 200.
    casepair: two different headers whose names differ only in letter case sit beside the first translation unit,
    which includes both.
    reguard: a guarded header is included, its guard macro is #undef'ed (and a mode macro defined), and it is included
    again: the body must be read a second time under the new macro state.
    oddnames: the first translation unit includes a header without a recognised extension (`tab.def`) that includes
    another one (`tab2.tbl`), a header without any extension (`Dense`), and headers whose names hold letters outside
    ASCII (`gr\u00f6\u00dfe.h`, `ma\u00df/l\u00e4nge.h` through a search directory); the command also forces `inc/forced.def` with -include.
    updir: some includes are spelled with a leading `../` (`"../inc2/x.h"`): such a name is looked up beside the
    includer and then relative to every search directory, like any other.
    links: a header outside the root (and one inside it) gets a second name inside the root through a file symlink, and
    the first translation unit includes it under that name.  links="side": each of the two headers also includes
    "lk_side?.h", which exists beside the link and beside the link's target (different contents).
    outside_tu: the last translation unit lives outside the analysis root (a generated source) and includes in-root
    headers.
    dirlinks: beside the first translation unit sits a symbolic link `up_inc` to the directory inc/below, and the unit
    includes "up_inc/../dl_hdr.h": the operating system climbs from the link's target, so this is inc/dl_hdr.h and not
    the decoy of the same name beside the includer (key `flinks`; `<up_inc/../dl_hdr.h>` likewise when the link's
    directory is searched).
    dupdirs: a search directory is named twice on a command: by -I and again by -isystem (a compiler then ignores the
    -I and searches the directory in its -isystem position, i.e. after every other -I directory), or twice by -I (the
    second one is ignored).
    builtin_decoy: the first translation unit has `#include "iso646.h"` (and <stdbool.h>), which a compiler finds in its own
    built-in directory (key `builtin_headers`: the check creates such a directory and hands it to gcc only, with -idirafter); files of those names sit in the analysis ROOT, which is on no search path and is not the
    includer's directory -- they must not be read.
    dirdecoy: a *directory* named like a header sits in a search directory that has no such header file (a compiler
    skips it and keeps searching)."""
    dirs = ["src"] + (["src/sub"] if subdir and rng.random() < 0.7 else []) + INC_DIRS
    if outside:
        dirs.append("@out/ext")
    names = NAMES[: rng.randint(2, 4)]
    files = {}
    where = {}   # name -> [dirs]
    for nm in names:
        k = rng.choice([1, 1, 2, 2, 3])
        ds = rng.sample(dirs, min(k, len(dirs)))
        if findable and not any(d in INC_DIRS for d in ds):
            ds.append(rng.choice(INC_DIRS))
        where[nm] = ds
    copies = [(d, nm) for nm in names for d in where[nm]]
    defs_of = {}  # rel -> macro it defines
    for d, nm in copies:
        rel = f"{d}/{nm}"
        defs_of[rel] = "D_" + fid(rel)
    all_macros = sorted(defs_of.values())

    def inc_item(candidates, own_dir):
        nm = rng.choice(candidates)
        x = rng.random()
        if missing and rng.random() < missing:
            nm = rng.choice(["nothere.h", "gone/" + nm, nm.replace(".h", "_missing.h")])
        if updir and x > 0.8 and nm in where:
            d2 = [d_ for d_ in where[nm] if d_ in INC_DIRS]
            if d2:
                return ["include", rng.choice("qqa"), "../" + rng.choice(d2) + "/" + nm]
        if computed and x < 0.15:
            return ["include", "m", rng.choice(['"%s"', "<%s>"]) % nm]
        return ["include", "q" if x < 0.6 else "a", nm]

    def detectors(n):
        out = []
        for _ in range(n):
            if rng.random() < 0.2:
                # the condition names LVLX, which is defined in terms of the command-line macro LVL
                out.append(["define", "LVLX", "LVL"])
                out.append(["chain", [["if", rng.choice(["LVLX >= 2", "LVLX == 1", "LVLX + 1 > 3", "LVLX"]), [["code"]]],
                                      ["else", None, [["code"]]]]])
                continue
            m = rng.choice(all_macros + ["A", "B", "C", "T"])
            kw = rng.choice(["ifdef", "ifndef"])
            br = [[kw, m, [["code"]]]]
            if rng.random() < 0.5:
                br.append(["else", None, [["code"]]])
            out.append(["chain", br])
        return out

    for idx, (d, nm) in enumerate(copies):
        rel = f"{d}/{nm}"
        ni = names.index(nm)
        later = names[ni + 1:]
        body = [["code"], ["define", defs_of[rel], None]]
        kind = rng.choice(["plain", "plain", "guard", "once", "toggle"] if toggles else ["plain", "guard", "once"])
        for _ in range(rng.randint(0, 2)):
            if later and rng.random() < 0.7:
                body.append(inc_item(later, d))
            body.extend(detectors(1))
            if rng.random() < 0.3:
                body.append(["undef", rng.choice(all_macros + ["A", "B"])])
        body.append(["code"])
        if kind == "toggle":
            body.append(["chain", [["ifdef", "T", [["code"], ["undef", "T"]]], ["else", None, [["code"], ["define", "T", None]]]]])
        if kind == "guard":
            g = "G_" + fid(rel)
            body = [["code"], ["chain", [["ifndef", g, [["define", g, None]] + body]]]]
        elif kind == "once":
            body = [["code"], ["once"]] + body
        files[rel] = body
    if forced:
        files["inc/pre.h"] = [["code"], ["define", "FROM_PRE", "1"], ["code"]]
    n_tus = n_tus or rng.randint(1, 4)
    n_platforms = n_platforms or rng.randint(1, min(3, n_tus))
    tus = []
    for t in range(n_tus):
        d = "src/sub" if ("src/sub" in dirs and rng.random() < 0.35) else "src"
        if outside_tu and t == n_tus - 1:
            d = "@out/gen"
        rel = f"{d}/t{t}" + rng.choice([".c", ".c", ".cpp", ".cc", ".cu"])
        body = [["code"]]
        for _ in range(rng.randint(1, 4 if not big else 10)):
            x = rng.random()
            if x < 0.55:
                it = inc_item(names, d)
                if it[1] == "m":
                    body.append(["define", "HDR", it[2]])
                    body.append(["include", "m", "HDR"])
                    body.append(["undef", "HDR"])
                else:
                    body.append(it)
            elif x < 0.85:
                body.extend(detectors(1))
            else:
                body.append(["chain", [["ifdef", rng.choice(["A", "B", "C"]), [["code"], inc_item(names, d)]],
                                       ["else", None, [["code"]]]]])
        if rng.random() < 0.25 and len(names) >= 2:
            # X-macro pattern: the same computed #include directive is reached twice with IMPL redefined in between
            files["inc/dispatch.h"] = [["code"], ["include", "m", "IMPL"], ["code"]]
            a, b_ = rng.sample(names, 2)
            form = rng.choice(['"%s"', "<%s>"])
            body += [["define", "IMPL", form % a], ["include", rng.choice("qa"), "dispatch.h"], ["undef", "IMPL"],
                     ["define", "IMPL", form % b_], ["include", "q", "dispatch.h"], ["undef", "IMPL"]]
        if rng.random() < 0.15:
            # a header that includes itself a bounded number of times, each pass selected by macros
            files["inc/rep.h"] = [["code"], ["chain", [["ifndef", "REP1", [["define", "REP1", None], ["code"], ["include", "q", "rep.h"], ["code"]]],
                                                       ["elif", "!defined(REP2)", [["define", "REP2", None], ["code"], ["include", "q", "rep.h"]]],
                                                       ["else", None, [["code"]]]]], ["code"]]
            body += [["include", rng.choice("qa"), "rep.h"], ["chain", [["ifdef", "REP2", [["code"]]], ["else", None, [["code"]]]]]]
        if casepair and t == 0:
            files[f"{d}/CaseP.h"] = [["code"], ["define", "CASE_UP", None]]
            files[f"{d}/casep.h"] = [["code"], ["code"], ["define", "CASE_LO", None], ["code"]]
            first, second = rng.sample(["CaseP.h", "casep.h"], 2)
            body += [["include", "q", first], ["code"], ["include", "q", second],
                     ["chain", [["ifdef", "CASE_UP", [["code"]]], ["else", None, [["code"]]]]],
                     ["chain", [["ifdef", "CASE_LO", [["code"]]], ["else", None, [["code"]]]]]]
        if oddnames and t == 0:
            files[f"{d}/tab.def"] = [["code"], ["include", "q", "tab2.tbl"], ["code"]]
            files[f"{d}/tab2.tbl"] = [["code"], ["define", "D_ODDEXT", None], ["include", "q", "Dense"], ["code"]]
            files[f"{d}/Dense"] = [["code"], ["define", "D_NOEXT", None]]
            files[f"{d}/gr\u00f6\u00dfe.h"] = [["code"], ["define", "D_UMLAUT", None], ["code"]]
            files["inc/ma\u00df/l\u00e4nge.h"] = [["code"], ["define", "D_UMLAUT2", None]]
            # a blank inside the header name, angle and quote form (the blank is part of the name)
            files["inc/my dir/ablank.h"] = [["code"], ["define", "D_BLANK_A", None]]
            files["inc/my dir/q blank.h"] = [["code"], ["define", "D_BLANK_Q", None], ["code"]]
            body += [["include", "q", "tab.def"], ["include", "q", "gr\u00f6\u00dfe.h"], ["include", "a", "ma\u00df/l\u00e4nge.h"],
                     ["include", "a", "my dir/ablank.h"], ["include", "q", "my dir/q blank.h"]]
            for mac in ("D_ODDEXT", "D_NOEXT", "D_UMLAUT", "D_UMLAUT2", "D_BLANK_A", "D_BLANK_Q"):
                body.append(["chain", [["ifdef", mac, [["code"]]], ["else", None, [["code"]]]]])
        if links and t == 0:
            files["@out/ext/olinked.h"] = [["code"], ["define", "D_OLINK", None], ["code"], ["code"]]
            files["inc/ilinked.h"] = [["code"], ["define", "D_ILINK", None], ["code"]]
            body += [["include", "q", "olink.h"], ["include", "q", "ilink.h"],
                     ["chain", [["ifdef", "D_OLINK", [["code"]]], ["else", None, [["code"]]]]],
                     ["chain", [["ifdef", "D_ILINK", [["code"]]], ["else", None, [["code"]]]]]]
            link_map = {f"{d}/olink.h": "@out/ext/olinked.h", f"{d}/ilink.h": "inc/ilinked.h"}
            if links == "side":
                # the linked headers include "lk_side.h"; a compiler looks for it beside the NAME the header was opened
                # by (the link's directory), not beside the link's target
                for tgt, tag in (("@out/ext", "O"), ("inc", "I")):
                    files[f"{tgt}/{'olinked' if tag == 'O' else 'ilinked'}.h"].append(["include", "q", f"lk_side{tag}.h"])
                    files[f"{tgt}/lk_side{tag}.h"] = [["code"], ["code"], ["define", f"D_SIDE{tag}_TARGETDIR", None]]
                    files[f"{d}/lk_side{tag}.h"] = [["code"], ["define", f"D_SIDE{tag}_LINKDIR", None], ["code"]]
                    for mac in (f"D_SIDE{tag}_TARGETDIR", f"D_SIDE{tag}_LINKDIR"):
                        body.append(["chain", [["ifdef", mac, [["code"]]], ["else", None, [["code"]]]]])
        if dirlinks and t == 0 and not d.startswith("@out"):
            files["inc/dl_hdr.h"] = [["code"], ["define", "D_DLNK", None], ["code"]]
            files[f"{d}/dl_hdr.h"] = [["code"], ["code"], ["define", "D_DLNK_DECOY", None]]
            body += [["include", "q", "up_inc/../dl_hdr.h"],
                     ["chain", [["ifdef", "D_DLNK", [["code"]]], ["else", None, [["code"]]]]],
                     ["chain", [["ifdef", "D_DLNK_DECOY", [["code"]]], ["else", None, [["code"]]]]]]
            dirlink_map = {f"{d}/up_inc": "inc/below"}
        if builtin_decoy and t == 0 and d.startswith("src"):
            files["iso646.h"] = [["code"], ["define", "D_ROOT_DECOY", None], ["code"]]
            files["stdbool.h"] = [["code"], ["define", "D_ROOT_DECOY2", None]]
            body += [["include", "q", "iso646.h"], ["include", "a", "stdbool.h"],
                     ["chain", [["ifdef", "D_ROOT_DECOY", [["code"]]], ["else", None, [["code"]]]]],
                     ["chain", [["ifdef", "D_ROOT_DECOY2", [["code"]]], ["else", None, [["code"]]]]]]
        if reguard and t == 0:
            # nothing but the include guard at top level, like a real header
            files[f"{d}/tab.h"] = [["bare"], ["chain", [["ifndef", "TAB_G", [
                ["bare"], ["define", "TAB_G", None], ["code"],
                ["chain", [["ifdef", "TAB_MODE", [["code"], ["define", "TAB_SECOND", None]]], ["else", None, [["code"]]]]]]]]]]
            body += [["include", "q", "tab.h"], ["code"], ["undef", "TAB_G"], ["define", "TAB_MODE", "1"], ["include", "q", "tab.h"],
                     ["include", "q", "tab.h"],
                     ["chain", [["ifdef", "TAB_SECOND", [["code"]]], ["else", None, [["code"]]]]]]
        if deep and t == 0:
            for k in range(deep):
                hb = [["code"]] + detectors(1)
                if k + 1 < deep:
                    hb += [["include", "q", f"dp{k + 1}.h"], ["code"]]
                else:
                    hb += [["define", "DEEPEST", None], inc_item(names, d), ["code"]]
                files[f"{d}/dp{k}.h"] = hb
            body += [["include", "q", "dp0.h"], ["chain", [["ifdef", "DEEPEST", [["code"]]], ["else", None, [["code"]]]]]]
        body.extend(detectors(rng.randint(1, 3)))
        if forced:
            body.append(["chain", [["ifdef", "FROM_PRE", [["code"]]], ["else", None, [["code"]]]]])
        files[rel] = body
        # fix computed-include items inside headers (they use the literal spelling directly)
        sdirs = [x for x in INC_DIRS + (["@out/ext"] if outside else []) if findable or rng.random() < 0.75]
        rng.shuffle(sdirs)
        search = []
        for sd in sdirs:
            search.append([rng.choice(["I", "I", "isystem"]), sd])
        if dupdirs:
            plain = [x for x in search if x[0] == "I"]
            if plain and t % 3 == 0:
                search.append(["isystem", plain[0][1]])
            elif plain and t % 3 == 1:
                search.insert(0, ["isystem", plain[-1][1]])
            elif plain:
                search.append(["I", plain[0][1]])
        defines = [x for x in ["A", "B=1", "C=0", "T"] if rng.random() < 0.35]
        if rng.random() < 0.7:
            defines.append("LVL=%d" % rng.randint(0, 3))
        includes = []
        if forced and rng.random() < 0.4:
            includes.append(rng.choice(["@abs:inc/pre.h", "pre.h" if any(s[1] == "inc" for s in search) else "@abs:inc/pre.h",
                                        "@rel:inc/pre.h"]))
        if oddnames and t == 0:
            # a forced include without a recognised extension (a generated table, a configuration fragment)
            files["inc/forced.def"] = [["code"], ["define", "D_FORCED_DEF", None], ["code"]]
            files[rel] = files[rel] + [["chain", [["ifdef", "D_FORCED_DEF", [["code"]]], ["else", None, [["code"]]]]]]
            includes.append("@abs:inc/forced.def")
        tus.append({"platform": None, "file": rel, "defines": defines, "search": search, "includes": includes})
    # platform names with dashes, dots, underscores, mixed case, and one being a prefix of another
    pool = ["p0", "gpu-2", "x.y", "A_B", "cpu", "cpu-avx512", "Z9"]
    rng.shuffle(pool)
    plats = pool[:n_platforms] if rng.random() < 0.6 else [f"p{i}" for i in range(n_platforms)]
    for i, tu in enumerate(tus):
        tu["platform"] = plats[i] if i < n_platforms else rng.choice(plats)
    # computed includes inside headers: replace ["include","m",'"x.h"'] by define/include/undef triple
    for rel, body in list(files.items()):
        files[rel] = _expand_computed(body)
    case = {"files": files, "tus": tus}
    if links and tus and not tus[0]["file"].startswith("@out/"):
        case["flinks"] = link_map
    if builtin_decoy and "iso646.h" in files:
        case["builtin_headers"] = ["iso646.h", "stdbool.h"]
    if dirlinks and tus and not tus[0]["file"].startswith("@out/"):
        case.setdefault("flinks", {}).update(dirlink_map)
        case["dirs"] = ["inc/below"]
    if dirdecoy:
        free = [(d_, nm) for nm in names for d_ in ["src"] + INC_DIRS if f"{d_}/{nm}" not in files]
        if free:
            d_, nm = rng.choice(free)
            case["dirs"] = case.get("dirs", []) + [f"{d_}/{nm}"]
    return case


def _expand_computed(body):
    out = []
    for it in body:
        if it[0] == "include" and it[1] == "m" and it[2] not in ("HDR", "IMPL"):
            out += [["define", "HDR", it[2]], ["include", "m", "HDR"], ["undef", "HDR"]]
        elif it[0] == "chain":
            out.append(["chain", [[kw, e, _expand_computed(b)] for kw, e, b in it[1]]])
        else:
            out.append(it)
    return out


# ------------------------------------------------------------- materialise --
def paths(base):
    return os.path.join(base, "root"), os.path.join(base, "outside")


def abspath(root, out, rel):
    if rel.startswith("@out/"):
        return os.path.join(out, rel[5:])
    return os.path.join(root, rel)


def materialize(case, base, alias=None):
    """Write the tree; returns (root, rendered {rel: Rendered})."""
    root, out = paths(base)
    os.makedirs(root, exist_ok=True)
    os.makedirs(out, exist_ok=True)
    rendered = {}
    for rel, body in case["files"].items():
        r = cprog.render(body, prefix=fid(rel))
        rendered[rel] = r
        p = abspath(root, out, rel)
        os.makedirs(os.path.dirname(p), exist_ok=True)
        with open(p, "w") as f:
            f.write(r.text)
    for d in INC_DIRS + ["src"] + list(case.get("dirs", [])):
        os.makedirs(os.path.join(root, d), exist_ok=True)
    for l, t in case.get("flinks", {}).items():
        lp = abspath(root, out, l)
        os.makedirs(os.path.dirname(lp), exist_ok=True)
        if not os.path.lexists(lp):
            os.symlink(abspath(root, out, t), lp)
    return root, rendered


def tu_args(case_tu, root, out):
    """(abs file, defines, search[(kind, absdir)], forced includes as spelled for a process in the source dir)."""
    path = abspath(root, out, case_tu["file"])
    search = [(k, abspath(root, out, d)) for k, d in case_tu["search"]]
    incs = []
    for sp in case_tu["includes"]:
        if sp.startswith("@abs:"):
            incs.append(abspath(root, out, sp[5:]))
        elif sp.startswith("@rel:"):
            incs.append(os.path.relpath(abspath(root, out, sp[5:]), os.path.dirname(path)))
        else:
            incs.append(sp)
    return path, list(case_tu["defines"]), search, incs


def tu_order(case):
    """Indices of case['tus'] in the order finder.find processes them (grouped by platform, first appearance)."""
    plats = []
    for tu in case["tus"]:
        if tu["platform"] not in plats:
            plats.append(tu["platform"])
    return [i for p in plats for i, tu in enumerate(case["tus"]) if tu["platform"] == p]


def gcc_expect(case, base, rendered, extra=()):
    """Runs gcc per TU. Returns (ok, per_tu=[{markers, includes, stderr}], expected={platform: {rel: set(lines)}})."""
    root, out = paths(base)
    per_tu = []
    expected = {}
    ok = True
    memo = {}      # identical commands (long histories repeat a few commands many times) are preprocessed once
    for tu in case["tus"]:
        path, defines, search, incs = tu_args(tu, root, out)
        key = (path, tuple(defines), tuple(map(tuple, search)), tuple(incs))
        if key not in memo:
            memo[key] = gcc.preprocess(path, defines=defines, search=search, includes=incs, cwd=os.path.dirname(path),
                                       H=True, extra=extra)
        g = memo[key]
        per_tu.append(g)
        if not g["ok"]:
            ok = False
            continue
        live = set(g["markers"])
        exp = expected.setdefault(tu["platform"], {})
        for rel, r in rendered.items():
            lines, _ = cprog.expected_lines(r, live, top_by_marker=(rel != tu["file"]))
            if lines:
                exp.setdefault(rel, set()).update(lines)
    return ok, per_tu, expected


def cbi_configuration(case, base, via_parser=True):
    """Configuration for finder.find.  via_parser: the entries are produced by the real command-line front end
    (config.ArgumentParser("gcc").parse_args on the argv a database would hold), so -I / -isystem ordering and
    option handling are the code's own; otherwise the lists are passed in command-line order."""
    root, out = paths(base)
    conf = {}
    for tu in case["tus"]:
        path, defines, search, incs = tu_args(tu, root, out)
        entry = None
        if via_parser:
            from codebasin import config
            argv = ["-D" + d for d in defines]
            for k, d in search:
                argv += ["-I" if k == "I" else "-isystem", d]
            for f in incs:
                argv += ["-include", f]
            argv += ["-c", path]
            cfgs = [c for c in config.ArgumentParser("gcc").parse_args(argv) if c.pass_name == "default"]
            if len(cfgs) == 1:
                c = cfgs[0]
                entry = {"file": path, "defines": list(c.defines), "include_paths": list(c.include_paths),
                         "include_files": list(c.include_files)}
        if entry is None:
            entry = {"file": path, "defines": defines, "include_paths": [d for _, d in search], "include_files": incs}
        conf.setdefault(tu["platform"], []).append(entry)
    return conf


def cbi_configuration_db(case, base):
    """The configuration as the front ends obtain it: one compilation database per platform is written (entries in the
    three equivalent spellings of props/c08.write_dbs) and loaded with the real config.load_database."""
    from cbimon.props import c08
    from codebasin import config
    c08.write_dbs(case, base)
    root = os.path.realpath(paths(base)[0])
    conf = {}
    for tu in case["tus"]:
        p = tu["platform"]
        if p not in conf:
            conf[p] = [e for e in config.load_database(os.path.join(base, "dbs", dbname(p)), root)]
    return conf


def observed_lines(state, case, base, platforms):
    """{platform: {rel: set(lines)}} from the ParserState (keyed back to case-relative names)."""
    from cbimon import cbi
    root, out = paths(base)
    res = {p: {} for p in platforms}
    for rel in case["files"]:
        p = os.path.realpath(abspath(root, out, rel))
        if state.get_tree(p) is None:
            continue
        lines, dup = cbi.per_line(state, p)
        for ln, ps in lines.items():
            for pl in ps:
                res.setdefault(pl, {}).setdefault(rel, set()).add(ln)
    return res


def diff(expected, observed):
    """List of differences {platform, file, missing, extra}."""
    out = []
    for p in sorted(set(expected) | set(observed)):
        e, o = expected.get(p, {}), observed.get(p, {})
        for rel in sorted(set(e) | set(o)):
            a, b = e.get(rel, set()), o.get(rel, set())
            if a != b:
                out.append({"platform": p, "file": rel, "missing": sorted(a - b)[:12], "extra": sorted(b - a)[:12]})
    return out
