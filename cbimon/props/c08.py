"""
C08 -- translation units and platforms are analysed in isolation and compose.

Monitored execution: finder.find on generated forests, (1) complete, (2) once
per compile command alone, (3) with commands / platforms permuted, (4) per
platform subset, plus the CLI with -p on a sample (fresh processes); H-assoc
snapshots of the Platform at every translation-unit boundary.
Oracles: metamorphic equalities + gcc per command.
"""

import itertools
import json
import os
import shutil

from cbimon import cbi, cli, hooks
from cbimon.gen import forest
from cbimon.oracles import gcc

PROP = "C08"
RULE = ("forest code bases (see C04) with 2..6 translation units over 1..4 platforms whose files test macros that only "
        "other translation units / headers define (leak detectors), #pragma once and toggle headers, colliding header "
        "spellings, -include; all search directories are -I. Each case: full run, every single-command run, 2 "
        "permutations, every platform subset, gcc per command. Non-trivial: >=2 commands and at least one command whose "
        "result would change if an earlier command's macros / once-list / include memo leaked (measured with gcc). "
        "Distinct by (files, commands).")
ASSUMPTIONS = ["a new finder.find() call is a fresh analysis (the CLI sample confirms it from fresh processes)",
               "gcc per command is the absolute oracle; -isystem is not generated here (C04 owns the search-order finding)"]
REQUIRED_HOOKS = ["H-assoc", "H-platform"]


def bounds(tier):
    return {"cases": 260 if tier == "quick" else 8000, "cli_cases": 6 if tier == "quick" else 80,
            "history": 16 if tier == "quick" else 160, "stateful": 64 if tier == "quick" else 2000,
            "unresolvable": 120 if tier == "quick" else 3000}


def required_cells(tier):
    return ["leak-sensitive:macro", "leak-sensitive:once", "leak-sensitive:memo", "subset:size-1", "order:reversed",
            "platforms>=3", "commands>=4", "tu-boundary-snapshots", "cli:-p", "forced-include", "history>=200-commands",
            "history>=200-once-skips", "db:no-directory-after-directory", "db:relative-directory",
            "stateful-option:same-compiler-twice", "stateful-option:different-values", "same-arguments-different-directory",
            "class:U-unresolvable-includes", "header-missing-for-one-command-found-by-another", "unknown-compiler-after-known-one",
            "member-header-shared-by-fortran-and-c", "cross-command:push-pop-pragmas", "cross-command:unevaluable-condition-in-another-platform",
            "cross-command:forced-once-header-with-identical-options", "cli:-p-with-platform-names-differing-in-case"]


def gen_case(rng):
    case = forest.gen(rng, n_tus=rng.randint(2, 6), n_platforms=rng.randint(1, 4), toggles=True, findable=True)
    for tu in case["tus"]:
        tu["search"] = [["I", d] for _, d in tu["search"]]
    return case


def gen_history_case(rng):
    """Long history: a few translation units, each including a #pragma once header twice, repeated with rotating
    -D sets until the run holds 200..450 compile commands (state that accumulates per processed command, per
    include or per #pragma once skip has room to show)."""
    case = forest.gen(rng, n_tus=rng.randint(2, 4), n_platforms=rng.randint(1, 3), toggles=True, findable=True)
    variants = [[], ["A"], ["B=1", "LVL=2"], ["A", "C=0", "T"], ["LVL=3"]]
    for tu in case["tus"]:
        tu["search"] = [["I", d] for _, d in tu["search"]]
        d = os.path.dirname(tu["file"])
        case["files"][f"{d}/once2.h"] = [["code"], ["once"], ["code"], ["define", "ONCE2", None]]
        case["files"][tu["file"]] = case["files"][tu["file"]] + [
            ["include", "q", "once2.h"], ["code"], ["include", "q", "once2.h"],
            ["chain", [["ifdef", "ONCE2", [["code"]]], ["else", None, [["code"]]]]]]
    base_tus = case["tus"]
    n = rng.choice([210, 260, 450])
    case["tus"] = [dict(base_tus[i % len(base_tus)], defines=variants[(i // len(base_tus)) % len(variants)]) for i in range(n)]
    return case


def check_history(ctx, case, base):
    acc = ctx.acc
    shutil.rmtree(base, ignore_errors=True)
    root, rendered = forest.materialize(case, base)
    ok, per_tu, expected = forest.gcc_expect(case, base, rendered)
    if not ok:
        acc.excluded("gcc-diagnostic", cls="H")
        return "excluded"
    cells = {"history>=200-commands", "history>=200-once-skips"}
    problems = []
    try:
        full, ev = run_cbi(case, base, monitor=True)
        for k, v in ev.counts.items():
            acc.hook(k, v)
        d = forest.diff(expected, full)
        if d:
            problems.append({"kind": "long-history-run-vs-gcc", "commands": len(case["tus"]), "diff": d[:6]})
        # the last command alone must give the same lines for its files as gcc says
    except Exception as e:
        problems.append({"kind": "exception", "observed": f"{type(e).__name__}: {e}"})
    nontriv = {"files": {k: str(v) for k, v in case["files"].items()}, "n": len(case["tus"])}
    if problems:
        acc.violated({"input": case, "witness": {"problems": problems[:5], "commands": case["tus"][:8],
                                                  "files": {rel: rendered[rel].text for rel in rendered}}},
                     cells=cells, nontrivial=nontriv, cls="H")
        return "violated"
    acc.held(cells=cells, nontrivial=nontriv, cls="H", sample={"commands": len(case["tus"])})
    return "held"


KERNEL = """cbi_m_{k}_1;
#if defined(__CUDA_ARCH__) && __CUDA_ARCH__ >= 890
cbi_m_{k}_3;
#elif defined(__CUDA_ARCH__) && __CUDA_ARCH__ >= 800
cbi_m_{k}_5;
#elif defined(__CUDA_ARCH__) && __CUDA_ARCH__ >= 750
cbi_m_{k}_7;
#elif defined(__CUDA_ARCH__)
cbi_m_{k}_9;
#else
cbi_m_{k}_11;
#endif
#ifdef _OPENMP
cbi_m_{k}_14;
#endif
"""


def check_stateful_options(ctx, rng, base, index):
    """Commands of one compiler whose options replace a default (nvcc --gpu-architecture / --gpu-code / -gencode replace
    the default sm_70 pass) follow each other in one database: each command's passes are its own.  Expected = union
    over commands of gcc per pass, the passes coming from the reference model of the compiler configuration."""
    from codebasin import config
    from cbimon.core import REPO
    from cbimon.oracles import ccmodel
    acc = ctx.acc
    shutil.rmtree(base, ignore_errors=True)
    root = os.path.join(base, "root")
    os.makedirs(os.path.join(root, "src"))
    builtin = ccmodel.load_builtin(REPO)
    n = rng.randint(2, 5)
    plats = ["a100", "h100"][: rng.randint(1, 2)]
    entries = {p: [] for p in plats}
    want = {p: set() for p in plats}
    flat = []
    unknown_after_known = False
    for j in range(n):
        k = f"k{j}"
        src = os.path.join(root, "src", k + ".cu")
        with open(src, "w") as f:
            f.write(KERNEL.replace("{k}", k))
        arch = rng.choice([70, 75, 80, 89, 90])
        sp = rng.choice([["--gpu-architecture=sm_%d"], ["--gpu-architecture", "sm_%d"], ["--gpu-code=sm_%d"],
                         ["-gencode", "arch=compute_%d,code=sm_%d"], [], ["--gpu-architecture=compute_%d"]])
        # some commands use another known compiler or a wrapper the analysis does not know (no modes, no passes for it)
        comp = rng.choice(["nvcc", "nvcc", "nvcc", "g++", "mpicxx", "/opt/cray/bin/CC"])
        if comp != "nvcc":
            sp = []
        argv = [comp] + [x.replace("%d", str(arch)) for x in sp] + (["-fopenmp"] if rng.random() < (0.3 if comp == "nvcc" else 0.8) else []) + ["-c", src]
        p = plats[j % len(plats)]
        entries[p].append({"file": src, "directory": root, "arguments": argv})
        flat.append(argv)
        exp, status = ccmodel.expected(builtin, argv[0], argv[1:])
        if status == "unknown" and "-fopenmp" in argv and any(a[0] in ("nvcc", "g++") and "-fopenmp" in a for a in flat[:-1]):
            unknown_after_known = True
        for pname, v in exp.items():
            g = gcc.preprocess(src, defines=v["cmd"][0] + v["extra"][0])
            if not g["ok"]:
                acc.inconc("gcc rejects kernel: " + g["stderr"][:200])
                return
            want[p] |= {(k, int(m.rsplit("_", 1)[1])) for m in g["markers"]}
    problems = []
    cells = {"stateful-option:same-compiler-twice"}
    if len({tuple(a[1:-2]) for a in flat if a[0] == "nvcc"}) >= 2:
        cells.add("stateful-option:different-values")
    if unknown_after_known:
        cells.add("unknown-compiler-after-known-one")
    for order in ("given", "reversed"):
        conf = {}
        try:
            for p in (plats if order == "given" else plats[::-1]):
                es = entries[p] if order == "given" else entries[p][::-1]
                db = os.path.join(base, f"{p}.json")
                with open(db, "w") as f:
                    json.dump(es, f)
                conf[p] = config.load_database(db, root)
            state, _ = cbi.run_find(root, conf)
            acc.hook("H-load_database")
            for p in plats:
                got = set()
                for j in range(n):
                    src = os.path.join(root, "src", f"k{j}.cu")
                    text = KERNEL.replace("{k}", f"k{j}").split("\n")
                    got |= {(f"k{j}", ln) for ln in cbi.used_lines(state, src, p) if text[ln - 1].startswith("cbi_m_")}
                if got != want[p]:
                    problems.append({"kind": "passes of a command depend on earlier commands of the same compiler", "order": order, "platform": p,
                                     "missing": sorted(want[p] - got)[:8], "extra": sorted(got - want[p])[:8]})
        except Exception as e:
            problems.append({"kind": "exception", "order": order, "observed": f"{type(e).__name__}: {e}"})
    rec = {"input": {"stateful": True, "commands": flat}, "witness": {"commands": flat, "platforms": {p: [e["arguments"] for e in entries[p]] for p in plats},
                                                                       "problems": problems[:4]}}
    if problems:
        acc.violated(rec, cells=cells, nontrivial={"commands": flat}, cls="S")
    else:
        acc.held(cells=cells, nontrivial={"commands": flat}, cls="S", sample={"commands": flat})


def check_unresolvable(ctx, case, base):
    """Class U: code bases a compiler would reject because some command cannot find some header (dangling names, or a
    header that only OTHER commands have on their search path).  No compiler oracle applies; the composition laws do:
    full run = union of the single-command runs = any permutation, and platform subsets are projections."""
    acc = ctx.acc
    rng = ctx.rng("permU" + str(len(case["files"])))
    shutil.rmtree(base, ignore_errors=True)
    root, rendered = forest.materialize(case, base)
    plats = sorted({t["platform"] for t in case["tus"]})
    problems = []
    cells = {"class:U-unresolvable-includes"}
    try:
        full, ev = run_cbi(case, base, monitor=True)
        for k, v in ev.counts.items():
            acc.hook(k, v)
        missing = [e for e in ev.events if e[0] == "inc" and not e[5]]
        found = {(e[2], e[4]) for e in ev.events if e[0] == "inc" and e[5]}
        if any((e[2], e[4]) in found for e in missing):
            cells.add("header-missing-for-one-command-found-by-another")
        if not missing:
            acc.excluded("nothing-unresolvable", cls="U")
            return
        singles = [run_cbi(case, base, tus=[tu])[0] for tu in case["tus"]]
        if norm(union(singles)) != norm(full):
            problems.append({"kind": "union-of-single-command-runs (with unresolvable includes)", "diff": forest.diff(union(singles), full)[:6]})
        for k in range(2):
            tus = list(case["tus"])
            tus.reverse() if k == 0 else rng.shuffle(tus)
            perm, _ = run_cbi(case, base, tus=tus)
            if norm(perm) != norm(full):
                problems.append({"kind": "command-order (with unresolvable includes)", "order": [t["file"] for t in tus], "diff": forest.diff(full, perm)[:6]})
        for sub in itertools.combinations(plats, 1) if len(plats) > 1 else []:
            so, _ = run_cbi(case, base, tus=[t for t in case["tus"] if t["platform"] in sub])
            want = {p: v for p, v in full.items() if p in sub}
            if norm(so) != norm(want):
                problems.append({"kind": "platform-subset (with unresolvable includes)", "subset": list(sub), "diff": forest.diff(want, so)[:6]})
    except Exception as e:
        problems.append({"kind": "exception", "observed": f"{type(e).__name__}: {e}"})
    nontriv = {"files": {k: str(v) for k, v in case["files"].items()}, "tus": case["tus"]}
    if problems:
        acc.violated({"input": dict(case, unresolvable=True), "witness": {"problems": problems[:5], "commands": case["tus"],
                                                                          "files": {rel: rendered[rel].text for rel in list(rendered)[:10]}}},
                     cells=cells, nontrivial=nontriv, cls="U")
    else:
        acc.held(cells=cells, nontrivial=nontriv, cls="U")


def check_mixed_language_member(ctx, base):
    """A member header (`params.inc`, `shared.h`) included by a free-form Fortran unit and by a C unit: members are
    parsed once, by their own extension, so neither the order of the two commands nor analysing them alone changes
    which lines each command uses."""
    from codebasin import CodeBase, finder
    acc = ctx.acc
    shutil.rmtree(base, ignore_errors=True)
    root = os.path.join(base, "root")
    os.makedirs(root)
    hdr = "/* legacy switch:\n#define USE_LEGACY_SOLVER 1\n*/\n#define PARAMS_SEEN 1\n// don't\n"
    files = {"params.inc": hdr, "shared.h": hdr.replace("PARAMS_SEEN", "SHARED_SEEN").replace("USE_LEGACY_SOLVER", "USE_LEGACY_H"),
             "driver.F90": "program p\n#include \"params.inc\"\n#include \"shared.h\"\n#ifdef USE_LEGACY_SOLVER\n  x = 1\n#else\n  x = 2\n#endif\n#ifdef USE_LEGACY_H\n  y = 1\n#endif\nend program p\n",
             "solver.c": "#include \"params.inc\"\n#include \"shared.h\"\n#ifdef USE_LEGACY_SOLVER\nint legacy;\n#else\nint modern;\n#endif\n#ifdef PARAMS_SEEN\nint seen;\n#endif\n"}
    for rel, text in files.items():
        with open(os.path.join(root, rel), "w") as f:
            f.write(text)
    ent = {n: {"file": os.path.join(root, n), "defines": [], "include_paths": [root], "include_files": []} for n in ("driver.F90", "solver.c")}

    def run(order, plats):
        cb = CodeBase(root)
        conf = {}
        for n, p in zip(order, plats):
            conf.setdefault(p, []).append(ent[n])
        st = finder.find(root, cb, conf, show_progress=False)
        res = {}
        for rel in files:
            lines, _ = cbi.per_line(st, os.path.join(root, rel))
            res[rel] = {ln: sorted(ps) for ln, ps in lines.items()}
        return res

    problems = []
    try:
        a = run(["driver.F90", "solver.c"], ["p", "p"])
        b = run(["solver.c", "driver.F90"], ["p", "p"])
        if a != b:
            problems.append({"kind": "command order changes the result for a member header shared by Fortran and C",
                             "diff": {r: [a[r], b[r]] for r in files if a[r] != b[r]}})
        f_only = run(["driver.F90"], ["p"])
        c_only = run(["solver.c"], ["p"])
        union = {r: {ln: sorted(set(f_only[r].get(ln, [])) | set(c_only[r].get(ln, []))) for ln in set(f_only[r]) | set(c_only[r])} for r in files}
        if union != a:
            problems.append({"kind": "union of the single-command runs differs (member header shared by Fortran and C)",
                             "diff": {r: [union[r], a[r]] for r in files if union[r] != a[r]}})
        two = run(["driver.F90", "solver.c"], ["f", "c"])
        two_r = run(["solver.c", "driver.F90"], ["c", "f"])
        if two != two_r:
            problems.append({"kind": "platform order changes the result (member header shared by Fortran and C)"})
        acc.hook("find", 6)
    except Exception as e:
        problems.append({"kind": "exception", "observed": f"{type(e).__name__}: {e}"})
    cells = {"member-header-shared-by-fortran-and-c"}
    if problems:
        acc.violated({"input": {"stateful": True, "scenario": "mixed-language-member"}, "witness": {"files": files, "problems": problems[:3]}}, cells=cells, cls="S")
    else:
        acc.held(cells=cells, cls="S", nontrivial={"scenario": "mixed-language-member"})


def check_cross_command_scenarios(ctx, base):
    """Two fixed scenarios in which one command could leave something behind for a later one:
      P  `#pragma push_macro("TRACE")` without a pop in one unit (built with -DTRACE=1), a stray `#pragma pop_macro("TRACE")`
         in another unit of the same platform (no TRACE): for a compiler neither changes anything, and whatever the
         analysis does with them must stay inside the translation unit;
      U  a shared header tests `#if API_LEVEL >= 2`; one platform's command defines API_LEVEL as nothing (which makes
         the condition unevaluable -- a compiler rejects that command), another defines it as 3: the analysis may
         refuse the whole input, but if it produces a result, the healthy platform's lines equal those it gets alone."""
    from codebasin import CodeBase, finder
    acc = ctx.acc
    scen = {
        "P": ({"hot_loop.c": "#pragma push_macro(\"TRACE\")\n#ifdef TRACE\nint traced;\n#else\nint quiet;\n#endif\n",
               "util.c": "#pragma pop_macro(\"TRACE\")\n#ifdef TRACE\nint util_traced;\nint util_traced2;\n#else\nint util_quiet;\n#endif\n",
               "other.c": "#pragma pop_macro(\"TRACE\")\n#pragma push_macro(\"TRACE\")\n#if TRACE == 1\nint o1;\n#endif\n"},
              [("hot_loop.c", "p", ["TRACE=1"]), ("util.c", "p", []), ("other.c", "q", ["TRACE=1"]), ("util.c", "q", [])]),
        # O  a forced header with #pragma once that the sources include as well, and whose text is not idempotent: each of
        #    two commands with IDENTICAL options reads it exactly once
        "O": ({"config.h": "#pragma once\n#ifdef SEEN\n#define TWICE 1\nint twice_line;\n#endif\n#define SEEN 1\nint cfg;\n",
               "a.c": "#include \"config.h\"\n#ifdef TWICE\nint a_twice;\n#else\nint a_once;\n#endif\n",
               "b.c": "#include \"config.h\"\n#ifdef TWICE\nint b_twice;\n#else\nint b_once;\n#endif\n#include \"config.h\"\n"},
              [("a.c", "p", [], ["config.h"]), ("b.c", "p", [], ["config.h"]), ("a.c", "q", [], ["config.h"])]),
        "U": ({"version.h": "#if API_LEVEL >= 2\nint v2;\n#else\nint v1;\n#endif\n",
               "modern.c": "#include \"version.h\"\n#if API_LEVEL >= 2\nint m2;\nint m2b;\n#else\nint m1;\n#endif\n",
               "legacy.c": "#include \"version.h\"\nint legacy;\n"},
              [("legacy.c", "legacy", ["API_LEVEL="]), ("modern.c", "modern", ["API_LEVEL=3"])]),
    }
    for name, (files, cmds) in scen.items():
        shutil.rmtree(base, ignore_errors=True)
        root = os.path.join(base, "root")
        os.makedirs(root)
        for rel, text in files.items():
            with open(os.path.join(root, rel), "w") as f:
                f.write(text)

        def run(sel):
            cb = CodeBase(root)
            conf = {}
            for fn, p, defs, *forced in sel:
                conf.setdefault(p, []).append({"file": os.path.join(root, fn), "defines": list(defs), "include_paths": [root],
                                               "include_files": [os.path.join(root, f_) for f_ in (forced[0] if forced else [])]})
            st = finder.find(root, cb, conf, show_progress=False)
            res = {}
            for rel in files:
                lines, _ = cbi.per_line(st, os.path.join(root, rel))
                res[rel] = {ln: sorted(ps) for ln, ps in lines.items()}
            return res

        def part(res, plat):
            return {rel: sorted(ln for ln, ps in lines.items() if plat in ps) for rel, lines in res.items()}

        problems = []
        cells = {"cross-command:" + {"P": "push-pop-pragmas", "U": "unevaluable-condition-in-another-platform", "O": "forced-once-header-with-identical-options"}[name]}
        plats = sorted({c[1] for c in cmds})
        alone = {}
        for p in plats:
            try:
                alone[p] = part(run([c for c in cmds if c[1] == p]), p)
            except Exception as e:
                alone[p] = f"refused: {type(e).__name__}"
        for order in (cmds, list(reversed(cmds))):
            try:
                full = run(order)
                acc.hook("find")
            except Exception as e:
                cells.add("cross-command:analysis-refused")
                continue
            cells.add("cross-command:analysis-completed")
            for p in plats:
                if isinstance(alone[p], str):
                    continue
                got = part(full, p)
                if got != alone[p]:
                    problems.append({"kind": "lines of a platform differ from those it gets when analysed alone", "platform": p,
                                     "order": [c[0] + ":" + c[1] for c in order], "alone": alone[p], "together": got})
        if name == "O":
            # the platform's result is the union of its commands analysed alone
            try:
                singles = [part(run([c]), c[1]) for c in cmds if c[1] == "p"]
                union_ = {rel: sorted(set().union(*[set(s_[rel]) for s_ in singles])) for rel in files}
                if not isinstance(alone["p"], str) and union_ != alone["p"]:
                    problems.append({"kind": "platform result differs from the union of its commands analysed alone", "union": union_, "together": alone["p"]})
            except Exception as e:
                problems.append({"kind": "exception", "observed": f"{type(e).__name__}: {e}"})
        case = {"stateful": True, "scenario": "cross-command-" + name}
        if problems:
            acc.violated({"input": case, "witness": {"files": files, "commands": cmds, "problems": problems[:3]}}, cells=cells, cls="S")
        else:
            acc.held(cells=cells, cls="S", nontrivial=case)


def check_case_variant_platform_names_cli(ctx, base):
    """[platform.cpu] and [platform.CPU] in one analysis file (the documentation says they are two platforms):
    `codebasin -p cpu` is the projection of the full result on `cpu`, `-p CPU` the one on `CPU`."""
    acc = ctx.acc
    shutil.rmtree(base, ignore_errors=True)
    root = os.path.join(base, "root")
    os.makedirs(root)
    files = {"a.c": "#ifdef LOWER\nint lo;\nint lo2;\n#endif\n#ifdef UPPER\nint up;\n#endif\nint both;\n", "b.c": "int unused;\n"}
    for rel, text in files.items():
        with open(os.path.join(root, rel), "w") as f:
            f.write(text)
    for p, d in (("cpu", "LOWER"), ("CPU", "UPPER"), ("Cpu", "MIXED")):
        with open(os.path.join(root, "db-" + "".join("u" if ch.isupper() else "l" for ch in p) + ".json"), "w") as f:
            json.dump([{"file": "a.c", "directory": root, "arguments": ["gcc", "-D" + d, "-c", "a.c"]}], f)
    with open(os.path.join(root, "analysis.toml"), "w") as f:
        for p in ("cpu", "CPU", "Cpu"):
            f.write('[platform.%s]\ncommands = "db-%s.json"\n\n' % (p, "".join("u" if ch.isupper() else "l" for ch in p)))
    results = {}
    problems = []
    for sel in ([], ["cpu"], ["CPU"], ["Cpu", "cpu"]):
        dump = os.path.join(base, "dump.json")
        rc, out, err = cli.run("codebasin", ["-R", "summary"] + [x for p in sel for x in ("-p", p)] + ["analysis.toml"], root, launch={"dump": dump})
        acc.hook("find")
        if rc != 0:
            problems.append({"kind": "cli failed", "selection": sel, "stderr": err[-300:]})
            continue
        d = json.load(open(dump))
        results[tuple(sel)] = {os.path.relpath(fn, os.path.realpath(root)): {ln: sorted(ps) for ln, ps in per.items()} for fn, per in d["attribution"].items()}
    full = results.get(())
    if full is not None:
        for sel, res in results.items():
            if not sel:
                continue
            want = {rel: {ln: [p for p in ps if p in sel] for ln, ps in per.items()} for rel, per in full.items()}
            if {r: {l: sorted(v) for l, v in per.items()} for r, per in res.items()} != {r: {l: sorted(v) for l, v in per.items()} for r, per in want.items()}:
                problems.append({"kind": "-p is not the projection of the full result", "selection": list(sel), "expected": want.get("a.c"), "observed": res.get("a.c")})
    cells = {"cli:-p-with-platform-names-differing-in-case"}
    if problems:
        acc.violated({"input": {"stateful": True, "scenario": "case-variant -p"}, "witness": {"files": files, "problems": problems[:3]}}, cells=cells, cls="S")
    else:
        acc.held(cells=cells, cls="S", nontrivial={"scenario": "case-variant -p"})


def check_same_arguments_other_directory(ctx, rng, base):
    """The same source file (absolute path) compiled by commands with IDENTICAL arguments from different build
    directories, each holding its own generated config.h found through `-I.`: the commands differ only in where they
    run, and each contributes its own lines.  gcc run in each directory is the oracle."""
    from codebasin import config
    acc = ctx.acc
    shutil.rmtree(base, ignore_errors=True)
    root = os.path.join(base, "root")
    os.makedirs(os.path.join(root, "src"))
    src = os.path.join(root, "src", "main.c")
    variants = rng.sample(["cpu", "gpu", "fpga", "dsp"], rng.randint(2, 4))
    lines = ["cbi_m_main_1;", "#include <config.h>"]
    for v in variants:
        lines += [f"#ifdef USE_{v.upper()}", f"cbi_m_main_{len(lines) + 2};", "#endif"]
    with open(src, "w") as f:
        f.write("\n".join(lines) + "\n")
    argv = ["gcc", "-I.", "-DCOMMON=1", "-c", src]
    entries, want = [], set()
    for v in variants:
        bd = os.path.join(root, "build", v)
        os.makedirs(bd)
        with open(os.path.join(bd, "config.h"), "w") as f:
            f.write(f"#define USE_{v.upper()} 1\ncbi_m_{v}_2;\n")
        entries.append({"file": src, "directory": bd if rng.random() < 0.5 else os.path.relpath(bd, root), "arguments": list(argv)})
        g = gcc.preprocess(src, defines=["COMMON=1"], search=[("I", ".")], cwd=bd)
        if not g["ok"]:
            acc.inconc("gcc: " + g["stderr"][:200])
            return
        want |= set(g["markers"])
    problems = []
    for order in ("given", "reversed"):
        es = entries if order == "given" else entries[::-1]
        db = os.path.join(base, "db.json")
        with open(db, "w") as f:
            json.dump(es, f)
        try:
            conf = config.load_database(db, root)
            state, _ = cbi.run_find(root, {"p": conf})
            acc.hook("H-load_database")
            got = set()
            files = [src] + [os.path.join(root, "build", v, "config.h") for v in variants]
            for fn in files:
                text = open(fn).read().split("\n")
                if state.get_tree(fn) is not None:
                    got |= {gcc.MARK.findall(text[ln - 1])[0] for ln in cbi.used_lines(state, fn, "p") if gcc.MARK.findall(text[ln - 1])}
            if got != want:
                problems.append({"kind": "commands that differ only in their directory", "order": order, "missing": sorted(want - got), "extra": sorted(got - want)})
        except Exception as e:
            problems.append({"kind": "exception", "order": order, "observed": f"{type(e).__name__}: {e}"})
    cells = {"same-arguments-different-directory"}
    rec = {"input": {"stateful": True, "entries": entries}, "witness": {"entries": entries, "problems": problems[:4]}}
    if problems:
        acc.violated(rec, cells=cells, nontrivial={"entries": entries}, cls="S")
    else:
        acc.held(cells=cells, nontrivial={"entries": entries}, cls="S", sample={"entries": entries})


def run_cbi(case, base, tus=None, monitor=False):
    sub = dict(case, tus=tus if tus is not None else case["tus"])
    root, _ = forest.paths(base)
    conf = forest.cbi_configuration(sub, base)
    if monitor:
        with hooks.monitor() as ev:
            state, _ = cbi.run_find(root, conf)
        return forest.observed_lines(state, case, base, list(conf)), ev
    state, _ = cbi.run_find(root, conf)
    return forest.observed_lines(state, case, base, list(conf)), None


def norm(obs):
    return {p: {f: sorted(l) for f, l in v.items() if l} for p, v in obs.items() if any(v.values())}


def union(list_of_obs):
    out = {}
    for o in list_of_obs:
        for p, v in o.items():
            for f, l in v.items():
                out.setdefault(p, {}).setdefault(f, set()).update(l)
    return out


def leak_cells(case, base, rendered, per_tu):
    """Which leaks would be visible (measured with gcc / from the generator's own description)."""
    cells = set()
    root, out = forest.paths(base)
    order = forest.tu_order(case)
    for a, b in zip(order, order[1:]):
        ta, tb = case["tus"][a], case["tus"][b]
        pa, da, sa, ia = forest.tu_args(ta, root, out)
        ok, table = gcc.final_macros(pa, defines=da, search=sa, includes=ia, cwd=os.path.dirname(pa))
        if not ok:
            continue
        leaked = [n for n in table if n.startswith(("D_", "G_")) or n in ("A", "B", "C", "T", "FROM_PRE")]
        pb, db, sb, ib = forest.tu_args(tb, root, out)
        have = {d.split("=")[0] for d in db}
        extra = [n for n in leaked if n not in have]
        g2 = gcc.preprocess(pb, defines=db + extra, search=sb, includes=ib, cwd=os.path.dirname(pb))
        if set(g2["markers"]) != set(per_tu[b]["markers"]):
            cells.add("leak-sensitive:macro")
        inc_a = {p for _, p in per_tu[a]["includes"]}
        inc_b = {p for _, p in per_tu[b]["includes"]}
        for p in inc_a & inc_b:
            rel = os.path.relpath(os.path.realpath(p), os.path.realpath(root))
            if "'once'" in str(case["files"].get(rel, "")):
                cells.add("leak-sensitive:once")
        na = {os.path.basename(p): os.path.realpath(p) for _, p in per_tu[a]["includes"]}
        for _, p in per_tu[b]["includes"]:
            if os.path.basename(p) in na and na[os.path.basename(p)] != os.path.realpath(p):
                cells.add("leak-sensitive:memo")
    return cells


def check_case(ctx, case, base, cls, do_cli=False):
    acc = ctx.acc
    rng = ctx.rng("perm" + str(len(case["files"])))
    shutil.rmtree(base, ignore_errors=True)
    root, rendered = forest.materialize(case, base)
    ok, per_tu, expected = forest.gcc_expect(case, base, rendered)
    if not ok:
        acc.excluded("gcc-diagnostic", cls=cls)
        return "excluded"
    cells = leak_cells(case, base, rendered, per_tu)
    plats = sorted({t["platform"] for t in case["tus"]})
    if len(plats) >= 3:
        cells.add("platforms>=3")
    if len(case["tus"]) >= 4:
        cells.add("commands>=4")
    if any(t["includes"] for t in case["tus"]):
        cells.add("forced-include")
    problems = []
    try:
        full, ev = run_cbi(case, base, monitor=True)
        for k, v in ev.counts.items():
            acc.hook(k, v)
        d = forest.diff(expected, full)
        if d:
            problems.append({"kind": "full-run-vs-gcc", "diff": d[:6]})
        # TU boundary snapshots: the first depth-0 associate of each Platform object sees only its -D macros
        order = forest.tu_order(case)
        first = {}
        for fn, pidx, snap in ev.tu_snapshots:
            first.setdefault(pidx, snap)
        if len(first) == len(order):
            cells.add("tu-boundary-snapshots")
            for pidx, ti in enumerate(order):
                tu = case["tus"][ti]
                want = sorted(d_.split("=")[0] for d_ in tu["defines"])
                snap = first[pidx]
                root_, out_ = forest.paths(base)
                own = set(forest.tu_args(tu, root_, out_)[3])
                foreign = [k for k in snap["memo"] if (k[0] if isinstance(k, tuple) else k) not in own]
                if snap["defs"] != want or snap["skip"] or foreign:
                    problems.append({"kind": "state-at-translation-unit-boundary", "tu": tu["file"], "expected_defs": want,
                                     "observed": {"defs": snap["defs"], "skip": snap["skip"], "memo": {str(k): v for k, v in snap["memo"].items()}}})
        else:
            problems.append({"kind": "translation-unit-count", "expected": len(order), "observed": len(first)})
        # split: every command alone, fresh state
        singles = [run_cbi(case, base, tus=[tu])[0] for tu in case["tus"]]
        if norm(union(singles)) != norm(full):
            problems.append({"kind": "union-of-single-command-runs", "diff": forest.diff(union(singles), full)[:6]})
        # permutations
        for k in range(2):
            tus = list(case["tus"])
            if k == 0:
                tus.reverse()
                cells.add("order:reversed")
            else:
                rng.shuffle(tus)
            perm, _ = run_cbi(case, base, tus=tus)
            if norm(perm) != norm(full):
                problems.append({"kind": "command-order", "order": [t["file"] for t in tus], "diff": forest.diff(full, perm)[:6]})
        # platform subsets
        for r in range(1, len(plats)):
            for sub in itertools.combinations(plats, r):
                if r == 1:
                    cells.add("subset:size-1")
                so, _ = run_cbi(case, base, tus=[t for t in case["tus"] if t["platform"] in sub])
                want = {p: v for p, v in full.items() if p in sub}
                if norm(so) != norm(want):
                    problems.append({"kind": "platform-subset", "subset": list(sub), "diff": forest.diff(want, so)[:6]})
        if do_cli and not problems:
            problems += cli_check(ctx, case, base, full, plats, cells)
    except Exception as e:
        problems.append({"kind": "exception", "observed": f"{type(e).__name__}: {e}"})
    nontriv = {"files": {k: str(v) for k, v in case["files"].items()}, "tus": case["tus"]} \
        if any(c.startswith("leak-sensitive") for c in cells) else None
    if problems:
        acc.violated({"input": case, "witness": {"problems": problems[:5], "commands": case["tus"],
                                                  "files": {rel: rendered[rel].text for rel in rendered}}},
                     cells=cells, nontrivial=nontriv, cls=cls)
        return "violated"
    acc.held(cells=cells, nontrivial=nontriv, cls=cls,
             sample={"commands": case["tus"], "files": {rel: rendered[rel].text for rel in list(rendered)[:6]}})
    return "held"


def write_dbs(case, base):
    """One compilation database per platform + analysis.toml in the root; returns toml name."""
    root, out = forest.paths(base)
    root = os.path.realpath(root)
    by = {}
    for i, tu in enumerate(case["tus"]):
        path, defines, search, incs = forest.tu_args(tu, root, out)
        # three equivalent spellings of an entry: 0 = everything absolute; 1 = no "directory" key, every path relative
        # to the root (the documented default); 2 = "directory" relative to the root, paths relative to it
        form = tu.get("db_form", (i + len(case["files"])) % 3)
        cwd = root if form == 1 else os.path.dirname(path)
        sp = (lambda p: p) if form == 0 else (lambda p: os.path.relpath(p, cwd))
        argv = ["gcc"] + ["-D" + d for d in defines]
        for k, d in search:
            argv += ["-I", sp(d)]
        for raw, f in zip(tu["includes"], incs):
            if raw.startswith("@abs:"):
                f = sp(f)
            elif raw.startswith("@rel:"):
                f = os.path.relpath(os.path.join(os.path.dirname(path), f), cwd)
            argv += ["-include", f]
        argv += list(tu.get("extra_args", []))
        argv += ["-c", sp(path)]
        entry = {"file": sp(path), "arguments": argv}
        if form == 0:
            entry["directory"] = os.path.dirname(path)
        elif form == 2:
            entry["directory"] = os.path.relpath(os.path.dirname(path), root)
        by.setdefault(tu["platform"], []).append(entry)
    os.makedirs(os.path.join(base, "dbs"), exist_ok=True)
    lines = []
    for p, entries in by.items():
        dbp = os.path.join(base, "dbs", forest.dbname(p))
        with open(dbp, "w") as f:
            json.dump(entries, f)
        lines.append(f"[platform.\"{p}\"]\ncommands = \"{dbp}\"\n")
    with open(os.path.join(root, "analysis.toml"), "w") as f:
        f.write("\n".join(lines))
    return "analysis.toml"


def db_forms(case):
    """{platform: [form of each entry, in database order]} as write_dbs spells them."""
    by = {}
    for i, tu in enumerate(case["tus"]):
        by.setdefault(tu["platform"], []).append(tu.get("db_form", (i + len(case["files"])) % 3))
    return by


def cli_check(ctx, case, base, full, plats, cells):
    """codebasin -R summary [-p ...] in fresh processes: dumped attribution must be the projection."""
    root, _ = forest.paths(base)
    toml = write_dbs(case, base)
    for forms in db_forms(case).values():
        if any(b == 1 and a != 1 for a, b in zip(forms, forms[1:])):
            cells.add("db:no-directory-after-directory")
        if 2 in forms:
            cells.add("db:relative-directory")
    problems = []
    subsets = [plats] + ([[plats[0]]] if len(plats) > 1 else []) + ([plats[1:]] if len(plats) > 2 else [])
    for sub in subsets:
        dump = os.path.join(base, "dump.json")
        args = ["-R", "summary"] + [x for p in sub for x in ("-p", p)] + [toml]
        rc, out, err = cli.run("codebasin", args if sub != plats else ["-R", "summary", toml], root, launch={"dump": dump})
        if rc != 0:
            problems.append({"kind": "cli-failed", "rc": rc, "stderr": err[-300:], "stdout": out[-300:]})
            continue
        cells.add("cli:-p")
        d = json.load(open(dump))
        obs = {}
        realroot = os.path.realpath(root)
        for fn, per in d["attribution"].items():
            rel = os.path.relpath(fn, realroot)
            for ln, ps in per.items():
                for p in ps:
                    obs.setdefault(p, {}).setdefault(rel, set()).add(int(ln))
        want = {p: v for p, v in full.items() if p in sub}
        if norm(obs) != norm(want):
            problems.append({"kind": "cli-platform-subset", "subset": sub, "diff": forest.diff(want, obs)[:6]})
    return problems


def run_shard(ctx):
    b = bounds(ctx.tier)
    base = os.path.join(ctx.scratch, "c08")
    rng = ctx.rng("cases")
    for i in range(b["cases"]):
        case = gen_case(rng)
        if ctx.mine(i):
            check_case(ctx, case, base, "R", do_cli=(i < b["cli_cases"] * 2 and i % 2 == 0))
    rng = ctx.rng("unresolvable")
    for i in range(b["unresolvable"]):
        case = forest.gen(rng, n_tus=rng.randint(2, 5), n_platforms=rng.randint(1, 3), missing=0.15, findable=False, toggles=True,
                          computed=False)     # (nested computed includes redefine HDR without #undef: a constraint violation)
        # one header tests a predefined macro whose value could depend on how often it was read in this process
        hs = sorted(r for r in case["files"] if r.endswith(".h"))
        if hs:
            h = hs[i % len(hs)]
            case["files"][h] = [["code"], ["chain", [["if", rng.choice(["__COUNTER__ == 0", "__COUNTER__ + __COUNTER__ == 0", "__INCLUDE_LEVEL__ == 0 || 1"]),
                                                    [["code"]]], ["else", None, [["code"]]]]]] + case["files"][h][1:]
        if ctx.mine(i):
            check_unresolvable(ctx, case, base)
    if ctx.shard == 0:
        check_mixed_language_member(ctx, base)
    if ctx.shard == 1 % ctx.nshards:
        check_cross_command_scenarios(ctx, base)
    if ctx.shard == 2 % ctx.nshards:
        check_case_variant_platform_names_cli(ctx, base)
    rng = ctx.rng("stateful")
    for i in range(b["stateful"]):
        import random as _r
        r2 = _r.Random(rng.random())
        if ctx.mine(i):
            check_stateful_options(ctx, r2, base, i)
            if i % 4 == 0:
                check_same_arguments_other_directory(ctx, r2, base)
    rng = ctx.rng("history")
    for i in range(b["history"]):
        case = gen_history_case(rng)
        if ctx.mine(i):
            check_history(ctx, case, base)
    shutil.rmtree(base, ignore_errors=True)


def replay(record, ctx):
    if record["input"].get("unresolvable"):
        check_unresolvable(ctx, record["input"], os.path.join(ctx.scratch, "c08"))
        return {"verdict": "violated" if ctx.acc.verdicts["violated"] else "held", "violations": ctx.acc.violations}
    if record["input"].get("stateful"):
        return {"verdict": "unknown", "note": "re-run ./check C08; the witness lists the commands"}
    if len(record["input"]["tus"]) >= 200:
        res = check_history(ctx, record["input"], os.path.join(ctx.scratch, "c08"))
        return {"verdict": res, "violations": ctx.acc.violations}
    res = check_case(ctx, record["input"], os.path.join(ctx.scratch, "c08"), "replay")
    return {"verdict": res, "violations": ctx.acc.violations}
