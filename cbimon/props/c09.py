"""
C09 -- code-base membership: extension, location and git-style exclude patterns.

Monitored execution: CodeBase.__contains__ for every file (and directories,
dangling links, missing paths) of a generated tree under >=5 spellings each,
and list(CodeBase).  Oracle: os.stat/realpath + `git check-ignore --no-index`
on the resolved root-relative path.
"""

import os
import shutil

from cbimon.oracles.gitignore import GitIgnore

PROP = "C09"
RULE = ("case = (directory tree with nested dirs, source/non-source extensions, names with spaces and glob "
        "metacharacters, file/dir symlinks inside->inside, inside->outside, dangling, chained) x (0..5 gitignore "
        "patterns built from the tree's own names: anchored, directory-only, *, ?, [..], ** in each position, escapes, "
        "trailing spaces, comments, negation, re-inclusion). Every path is queried absolute, relative to two cwds, with "
        "./ and dir/../ segments and through each symlink alias. Non-trivial: >=1 pattern matches >=1 file and >=1 "
        "file stays a member; distinct by (tree, patterns).")
ASSUMPTIONS = ["git 2.39 check-ignore --no-index is the gitignore semantics",
               "the recognised-extension list is the one of codebasin/source.py as of the pinned commit (copied here)",
               "names with newlines or non-ASCII characters are not generated (git wildmatch ? and [..] match single bytes)"]
REQUIRED_HOOKS = ["H-contains", "H-git-check-ignore", "H-iter"]

EXTENSIONS = [".f90", ".F90", ".f", ".ftn", ".fpp", ".F", ".FOR", ".FTN", ".FPP", ".c", ".h", ".c++", ".cxx", ".cpp", ".cc",
              ".hpp", ".hxx", ".h++", ".hh", ".inc", ".inl", ".tcc", ".icc", ".ipp", ".cu", ".cuh", ".cl", ".s", ".S", ".asm"]
NONSRC = [".txt", ".o", ".C", ".H", ".CPP", ".py", "", ".c.bak", ".cc~", ".for", ".f77", ".hPP", ".json", ".md"]
DIRNAMES = ["src", "include", "third-party", "build", "a b", "x[1]", "d*r", "q?", "!bang", "#hash", "sub", "deep", "lib.c", "Src",
            # names that mean something to shells, version control or path helpers but are ordinary directory names
            ".git", ".svn", ".hg", "~", "~root", "$HOME", "CVS", "node_modules", "...",
            "src2", "src-old", "include2",        # names that extend another directory's name
            "sub\rdir", "two\nparts"]               # control characters are legal in POSIX file names
BASENAMES = ["main", "util", "a b", "x[1]", "st*r", "q?x", "!neg", "#h", "foo", "Foo", "bar", ".hidden", "a.b", "-dash", "e2", "~", "$x", "%TEMP%", "two\nlines", "cr\rname", "tab\tname"]


def ext_of(path):
    """The extension in the sense the code base uses (pathlib): what follows the last dot of a name that has something
    in front of that dot -- `..c` and `a..c` have the extension .c, the hidden files `.c` and `.h` have none."""
    import pathlib
    return pathlib.PurePosixPath(path).suffix


def bounds(tier):
    return {"trees": 1600 if tier == "quick" else 24000, "manual_lists": True}


def required_cells(tier):
    cells = ["pat:anchored", "pat:dir-only", "pat:star", "pat:question", "pat:class", "pat:**/x", "pat:x/**", "pat:a/**/b",
             "pat:escape", "pat:trailing-space", "pat:comment", "pat:negation", "pat:reinclude-below-excluded-dir", "pat:none",
             "pat:repeated-after-negation", "pat:leading-dot-slash", "multi-directory-code-base", "multi-directory:name-prefix-related", "pat:absolute-path-of-the-root-as-prefix", "name:line-break-character", "link:hard", "link:loop", "special:fifo", "iter:after-file-system-change",
             "link:file-inside", "link:dir-inside", "link:outside", "link:dangling", "link:chain",
             "spell:absolute", "spell:relative-root", "spell:relative-other-cwd", "spell:dot", "spell:dotdot", "spell:via-link", "spell:same-spelling-other-cwd",
             "member:yes", "member:no-extension", "member:no-excluded", "member:no-outside", "member:no-directory",
             "member:no-missing", "iter", "outside:sibling-with-root-prefix", "name:vcs-directory", "name:tilde-first",
             "patterns:extended-after-first-use", "patterns:default-list-mutated-on-another-object", "name:canonically-equivalent-spellings",
             "multi-directory:non-existent-directory-listed", "name:dots-and-extension", "spell:unresolvable"]
    return cells


MANUAL_PATTERN_LISTS = [
    ["*.c"], ["/src"], ["src/"], ["**/build"], ["build/**"], ["a/**/b"], ["*.[ch]"], ["!*.c"], ["*.c", "!main.c"],
    ["src/", "!src/main.c"], ["/*", "!/src"], ["\\!neg.c"], ["\\#h.c"], ["# comment", "*.h"], ["*.h  "], ["*.h\\ "], ["foo"],
    ["Foo.c"], ["doc/**/*.c"], ["**"], ["*"], ["/"], ["src/*.c"], ["src/**"], ["**/"], ["a?b.c"], ["[a-c]*.c"], ["[!a-c]*.c"],
    ["x\\[1\\].c"], ["x[1].c"], ["st\\*r.c"], ["st*r.c"], [""], ["   "], ["!"], ["src//main.c"], ["./src"], ["src/."],
    ["third-party/", "!third-party/keep.h"], ["*", "!*/", "!*.c"], ["**/sub/*.h"], ["sub/deep/"], ["/sub/deep/x.c"],
    # order and repetition matter once a negation is involved
    ["*.h", "!util.h", "*.h"], ["*.c", "!main.c", "*.c"], ["!main.c", "*.c"], ["*.c", "!main.c"], ["./src/main.c"], ["./*.c"],
    ["src/./main.c"], ["src/../main.c"], ["*.c", "!*.c", "*.c", "!main.c"],
]


def gen_tree(rng):
    dirs = [""]
    for _ in range(rng.randint(0, 6)):
        parent = rng.choice(dirs)
        if parent.count("/") >= 2:
            continue
        d = os.path.join(parent, rng.choice(DIRNAMES))
        if d not in dirs:
            dirs.append(d)
    files = []
    for _ in range(rng.randint(1, 12)):
        d = rng.choice(dirs)
        ext = rng.choice(EXTENSIONS) if rng.random() < 0.7 else rng.choice(NONSRC)
        p = os.path.join(d, rng.choice(BASENAMES) + ext)
        if p not in files and p not in dirs:
            files.append(p)
    links = {}
    outside = []
    kinds = []
    for i in range(rng.choice([0, 1, 2, 3])):
        k = rng.choice(["file-inside", "dir-inside", "outside", "dangling", "chain", "hard", "loop", "fifo"])
        d = rng.choice(dirs)
        if k == "file-inside" and files:
            links[os.path.join(d, f"lnk{i}" + rng.choice([".c", ".h", ".txt", ""]))] = ("in", rng.choice(files))
        elif k == "dir-inside" and len(dirs) > 1:
            links[os.path.join(d, f"dl{i}")] = ("in", rng.choice(dirs[1:]))
        elif k == "outside":
            outside.append(f"out{i}.c")
            links[os.path.join(d, f"ol{i}.c")] = ("out", f"out{i}.c")
        elif k == "dangling":
            links[os.path.join(d, f"dang{i}.c")] = ("in", f"nowhere{i}.c")
        elif k == "hard" and files:
            links[os.path.join(d, f"hard{i}" + os.path.splitext(files[0])[1])] = ("hard", rng.choice(files))
        elif k == "loop":
            links[os.path.join(d, f"loop{i}.c")] = ("loop", f"loop{i}.c")
        elif k == "fifo":
            links[os.path.join(d, f"pipe{i}.cpp")] = ("fifo", "")
        elif k == "chain" and files:
            links[os.path.join(d, f"ch{i}a.c")] = ("in", rng.choice(files))
            links[os.path.join(d, f"ch{i}b.c")] = ("in", os.path.join(d, f"ch{i}a.c"))
        else:
            continue
        kinds.append(k)
    return {"dirs": dirs, "files": files, "links": links, "outside": outside, "link_kinds": kinds}


def esc(name):
    out = ""
    for ch in name:
        out += "\\" + ch if ch in "*?[]!#\\ " else ch
    return out


def gen_patterns(rng, tree):
    names = [os.path.basename(f) for f in tree["files"]] or ["x.c"]
    dnames = [d for d in tree["dirs"] if d] or ["src"]
    pats = []
    feats = set()
    for _ in range(rng.choice([0, 1, 1, 2, 3, 5])):
        k = rng.choice(["name", "anchored", "dir-only", "star", "question", "class", "**/x", "x/**", "a/**/b", "escape",
                        "trailing-space", "comment", "negation", "reinclude", "path", "blank"])
        f = rng.choice(tree["files"]) if tree["files"] else "x.c"
        base = os.path.basename(f)
        d = rng.choice(dnames)
        if k == "name":
            p = esc(base)
        elif k == "anchored":
            p = "/" + esc(f) if rng.random() < 0.5 else "/" + esc(f.split("/")[0])
        elif k == "dir-only":
            p = esc(os.path.basename(d)) + "/" if rng.random() < 0.6 else esc(d) + "/"
        elif k == "star":
            ext = ext_of(base)
            p = rng.choice(["*" + esc(ext) if ext else "*", esc(base[:1]) + "*", "*" + esc(base[-2:]), esc(d) + "/*"])
        elif k == "question":
            p = esc(base[:-1]) + "?" if len(base) > 1 else "?"
        elif k == "class":
            c = base[0]
            p = rng.choice([f"[{c}x]" if c not in "]\\^!-[" else "[a-z]", "[a-m]", "[!a-m]", "[[:alpha:]]"]) + esc(base[1:])
        elif k == "**/x":
            p = "**/" + esc(rng.choice([base, os.path.basename(d)]))
        elif k == "x/**":
            p = esc(d) + "/**"
        elif k == "a/**/b":
            p = esc(d.split("/")[0]) + "/**/" + esc(base)
        elif k == "escape":
            p = esc(base) if any(ch in base for ch in "*?[]!# ") else "\\" + base
        elif k == "trailing-space":
            p = esc(base) + rng.choice([" ", "   ", "\\ "])
        elif k == "comment":
            p = "# " + base
        elif k == "negation":
            p = "!" + rng.choice([esc(base), "*" + esc(ext_of(base)), esc(f)])
        elif k == "reinclude":
            top = f.split("/")[0] if "/" in f else None
            if top is None:
                p = "!" + esc(base)
            else:
                pats.append(esc(top) + "/")
                feats.add("pat:dir-only")
                p = "!" + esc(f)
                feats.add("pat:reinclude-below-excluded-dir")
            k = "negation"
        elif k == "path":
            p = esc(f)
            k = "name"
        else:
            p = rng.choice(["", "  "])
            k = "comment"
        if "\n" in p or "\r" in p:
            p = "*" + ext_of(base) if "." in base else "*"      # (a pattern is one line of text)
        if k == "anchored" and rng.random() < 0.15:
            p = "@ROOT@" + p                    # replaced by the absolute path of the code-base directory at check time
            feats.add("pat:absolute-path-of-the-root-as-prefix")
        pats.append(p)
        feats.add("pat:" + k if k != "name" else "pat:name")
        if k == "negation" and len(pats) >= 2 and rng.random() < 0.5:
            # the pattern that preceded the negation, given once more after it (the last match decides)
            pats.append(pats[-2])
            feats.add("pat:repeated-after-negation")
        elif k in ("name", "anchored", "star") and rng.random() < 0.08:
            pats[-1] = "./" + pats[-1].lstrip("/")      # a leading ./ is not special in a gitignore pattern
            feats.add("pat:leading-dot-slash")
    pats = [p for p in pats if "\n" not in p and "\r" not in p]      # a pattern is one line of text
    if not pats:
        feats.add("pat:none")
    return pats, feats


def build(base, tree):
    root = os.path.join(base, "root")
    shutil.rmtree(base, ignore_errors=True)
    os.makedirs(root)
    for d in tree["dirs"]:
        os.makedirs(os.path.join(root, d), exist_ok=True)
    for f in tree["files"]:
        with open(os.path.join(root, f), "w") as fh:
            fh.write("int x;\n")
    for o in tree["outside"]:
        with open(os.path.join(base, o), "w") as fh:
            fh.write("int o;\n")
    # siblings of the root whose names merely start with the root's name
    for sib in ("root-old", "root2", "rootfiles/src"):
        os.makedirs(os.path.join(base, sib), exist_ok=True)
        with open(os.path.join(base, sib, "legacy.c"), "w") as fh:
            fh.write("int legacy;\n")
    for l, (where, target) in tree["links"].items():
        p = os.path.join(root, l)
        if os.path.lexists(p):
            continue
        if where == "hard":
            os.link(os.path.join(root, target), p)          # a second directory entry: a regular file like the first
        elif where == "loop":
            os.symlink(os.path.basename(p), p)              # a link to itself: resolves to nothing
        elif where == "fifo":
            os.mkfifo(p)                                    # exists, has a source extension, is not a regular file
        else:
            t = os.path.join(root if where == "in" else base, target)
            os.symlink(os.path.relpath(t, os.path.dirname(p)), p)
    return root


def spellings(root, rel, rng, tree):
    """[(kind, path string, cwd)] for one root-relative path."""
    ab = os.path.join(root, rel)
    out = [("absolute", ab, None), ("relative-root", rel or ".", root)]
    subs = [d for d in tree["dirs"] if d]
    if subs:
        cwd = os.path.join(root, rng.choice(subs))
        if os.path.isdir(cwd) and not os.path.islink(cwd):
            out.append(("relative-other-cwd", os.path.relpath(ab, os.path.realpath(cwd)), cwd))
    out.append(("dot", os.path.join(root, ".", os.path.dirname(rel), ".", os.path.basename(rel)), None))
    d = os.path.dirname(ab)
    real_d = os.path.realpath(d)
    if real_d == os.path.normpath(d):     # `x/..` is only lexically safe when x is not a symlink
        out.append(("dotdot", os.path.join(os.path.dirname(d), os.path.basename(d), "..", os.path.basename(d), os.path.basename(ab))
                    if os.path.basename(d) else ab, None))
    return out


def expected_member(root, realroot, path, cwd, ignored_cache):
    full = path if os.path.isabs(path) else os.path.join(os.path.realpath(cwd), path)
    try:
        real = os.path.realpath(full)
        there = os.path.exists(real)
    except (OSError, ValueError):
        return False, "missing", None        # a name the operating system refuses to look up names no file
    if not there:
        return False, "missing", None
    if os.path.isdir(real):
        return False, "directory", None
    if not os.path.isfile(real):
        return False, "not-regular", None
    if ext_of(real) not in EXTENSIONS:
        return False, "extension", None
    if not (real + "/").startswith(realroot + "/") or real == realroot:
        return False, "outside", None
    rel = os.path.relpath(real, realroot)
    return None, "git", rel


def check_case(ctx, git, tree, patterns, feats, base, cls):
    from codebasin import CodeBase
    acc = ctx.acc
    rng = ctx.rng("spell" + str(len(tree["files"])) + str(len(patterns)))
    root = build(base, tree)
    realroot = os.path.realpath(root)
    patterns = [p.replace("@ROOT@", realroot) for p in patterns]
    cells = set(feats)
    if any("\n" in f or "\r" in f for f in tree["files"]):
        cells.add("name:line-break-character")
    for k in tree["link_kinds"]:
        cells.add({"file-inside": "link:file-inside", "dir-inside": "link:dir-inside", "outside": "link:outside",
                   "dangling": "link:dangling", "chain": "link:chain", "hard": "link:hard", "loop": "link:loop", "fifo": "special:fifo"}[k])
    if any(set(f.split("/")[:-1]) & {".git", ".svn", ".hg", "CVS"} for f in tree["files"]):
        cells.add("name:vcs-directory")
    if any(f.startswith("~") for f in tree["files"]):
        cells.add("name:tilde-first")
    case = {"tree": tree, "patterns": patterns}
    try:
        if len(tree["files"]) % 2 == 0 and patterns:
            # the pattern list grows AFTER the object has answered a query and been enumerated once (exclude_patterns is
            # the live list): from then on the object must answer like a fresh one built with the full list
            k = len(patterns) // 2
            cb = CodeBase(root, exclude_patterns=list(patterns[:k]))
            _ = os.path.join(root, tree["files"][0]) in cb
            _ = list(cb)
            cb.exclude_patterns.extend(patterns[k:])
            cells.add("patterns:extended-after-first-use")
        else:
            cb = CodeBase(root, exclude_patterns=list(patterns))
        if list(cb.exclude_patterns) != list(patterns):
            raise AssertionError("exclude_patterns does not hold the patterns given")
        # a code base built without patterns never sees those of another one
        other = CodeBase(root)
        if other.exclude_patterns:
            acc.violated({"input": case, "witness": {"patterns": patterns, "observed": f"a CodeBase built without patterns reports exclude_patterns={other.exclude_patterns!r}"}},
                         mechanism="default-pattern-list-shared-between-objects", cells=cells, cls=cls)
            return
        other.exclude_patterns.append("*")
        cells.add("patterns:default-list-mutated-on-another-object")
    except Exception as e:
        acc.violated({"input": case, "witness": {"patterns": patterns, "observed": f"constructor {type(e).__name__}: {e}"}},
                     mechanism=classify(patterns, f"{type(e).__name__}: {e}", None), cells=cells, cls=cls)
        return
    # all candidate root-relative paths: files, dirs, links, entries reachable through dir links, a missing path
    rels = list(tree["files"]) + [d for d in tree["dirs"] if d] + list(tree["links"]) + ["missing.c", "src/missing.h"]
    for l, (where, target) in tree["links"].items():
        lp = os.path.join(root, l)
        if os.path.isdir(lp):
            for name in sorted(os.listdir(lp))[:4]:
                rels.append(os.path.join(l, name))
    queries = []
    for sib in ("root-old/legacy.c", "root2/legacy.c", "rootfiles/src/legacy.c"):
        queries.append((sib, "absolute", os.path.join(os.path.dirname(root), sib), root))
        queries.append((sib, "relative-root", os.path.join("..", sib), root))
    # the SAME relative string asked from different working directories on the one CodeBase object (it names different
    # files, or none, depending on where the process stands)
    real_dirs = [d for d in tree["dirs"] if d and os.path.isdir(os.path.join(root, d)) and not os.path.islink(os.path.join(root, d))][:3]
    for f in list(tree["files"])[:4]:
        b = os.path.basename(f)
        for d in [""] + real_dirs:
            queries.append((os.path.normpath(os.path.join(d, b)), "same-spelling-other-cwd", b, os.path.join(root, d) if d else root))
    # paths that name no file at all and that the operating system refuses to look up: a component longer than NAME_MAX,
    # a path longer than PATH_MAX, an embedded NUL -- they are simply not members
    queries.append(("x" * 300 + ".c", "unresolvable", os.path.join(root, "x" * 300 + ".c"), root))
    queries.append(("deep/" * 1200 + "y.c", "unresolvable", os.path.join(root, "d/" * 2100 + "y.c"), root))
    queries.append(("nul\0byte.c", "unresolvable", os.path.join(root, "nul\0byte.c"), root))
    for rel in rels:
        for kind, path, cwd in spellings(root, rel, rng, tree):
            queries.append((rel, kind if not any(rel == l or rel.startswith(l + "/") for l in tree["links"]) else "via-link", path, cwd or root))
    # expectations: stat part locally, ignore part by one git call
    pre = []
    need = set()
    for rel, kind, path, cwd in queries:
        verdict, why, relreal = expected_member(root, realroot, path, cwd, None)
        pre.append((verdict, why, relreal))
        if relreal is not None:
            need.add(relreal)
    def parents(rel):
        parts = rel.split("/")[:-1]
        return ["/".join(parts[:i]) for i in range(1, len(parts) + 1)]

    try:
        ign = git.ignored(realroot, patterns, sorted(need | {d for r in need for d in parents(r)}))
    except Exception as e:
        acc.inconc(f"git oracle failed: {e}")
        return
    acc.hook("H-git-check-ignore")
    problems = []
    n_member = n_excl = 0
    old = os.getcwd()
    try:
        for (rel, kind, path, cwd), (verdict, why, relreal) in zip(queries, pre):
            if verdict is None:
                if relreal not in ign:
                    acc.inconc(f"git gave no answer for {relreal!r}")
                    return
                verdict = not ign[relreal]
                why = "member" if verdict else "excluded"
            os.chdir(cwd)
            try:
                obs = path in cb
            except Exception as e:
                obs = f"{type(e).__name__}: {e}"
            acc.hook("H-contains")
            cells.add("spell:" + kind)
            cells.add({"member": "member:yes", "excluded": "member:no-excluded", "extension": "member:no-extension",
                       "outside": "member:no-outside", "directory": "member:no-directory", "missing": "member:no-missing",
                       "not-regular": "member:no-not-regular"}[why])
            if why == "outside" and rel.startswith("root"):
                cells.add("outside:sibling-with-root-prefix")
            if why == "member":
                n_member += 1
            if why == "excluded":
                n_excl += 1
            if obs is not verdict:
                problems.append({"query": path, "cwd": cwd, "relative": rel, "spelling": kind, "expected": verdict,
                                 "reason": why, "observed": obs,
                                 "parent_dir_ignored": bool(relreal) and any(ign.get(d) for d in parents(relreal))})
    finally:
        os.chdir(old)
    # enumeration
    try:
        listed = list(cb)
        acc.hook("H-iter")
        cells.add("iter")
        listed_real = {os.path.realpath(p) for p in listed}
        cand = set()
        for dp, dn, fn in os.walk(realroot):
            for name in fn:
                cand.add(os.path.join(dp, name))
        relc = {os.path.relpath(c, realroot): c for c in cand if ext_of(c) in EXTENSIONS and os.path.isfile(c)}
        real_members = set()
        ign2 = git.ignored(realroot, patterns, sorted({os.path.relpath(os.path.realpath(c), realroot) for c in relc.values()
                                                       if (os.path.realpath(c) + "/").startswith(realroot + "/")}))
        for r, c in relc.items():
            rc = os.path.realpath(c)
            if (rc + "/").startswith(realroot + "/") and os.path.isfile(rc) and ext_of(rc) in EXTENSIONS:
                if not ign2.get(os.path.relpath(rc, realroot), False):
                    real_members.add(rc)
        if listed_real != real_members:
            extra = sorted(os.path.relpath(x, realroot) for x in listed_real - real_members)
            pign = git.ignored(realroot, patterns, sorted({d for r in extra if not r.startswith("..") for d in parents(r)}))
            problems.append({"query": "list(CodeBase)", "expected": sorted(os.path.relpath(x, realroot) for x in real_members),
                             "observed": sorted(os.path.relpath(x, realroot) for x in listed_real),
                             "every_extra_below_ignored_dir": bool(extra) and not (real_members - listed_real) and
                             all(any(pign.get(d) for d in parents(r)) for r in extra)})
        for p in listed:
            if p not in cb:
                problems.append({"query": "enumerated path is not a member", "path": p})
        # the same object enumerated again after the file system changed: one member deleted, one created
        if real_members and not problems:
            gone = sorted(real_members)[0]
            new_file = os.path.join(realroot, "added_later.cpp")
            os.unlink(gone)
            with open(new_file, "w") as fh:
                fh.write("int later;\n")
            again = {os.path.realpath(p) for p in cb}
            cells.add("iter:after-file-system-change")
            ign3 = git.ignored(realroot, patterns, ["added_later.cpp"])
            want_again = {m for m in real_members if os.path.exists(m)} | (set() if ign3.get("added_later.cpp") else {new_file})
            if again != want_again:
                problems.append({"query": "list(CodeBase) again after a file was deleted and one created",
                                 "expected": sorted(os.path.relpath(x, realroot) for x in want_again),
                                 "observed": sorted(os.path.relpath(x, realroot) for x in again)})
    except Exception as e:
        problems.append({"query": "list(CodeBase)", "observed": f"{type(e).__name__}: {e}"})
    if not problems and cls != "replay":
        check_multi_directory(ctx, git, tree, patterns, root, realroot)
    nontriv = case if (n_member and n_excl) else None
    if problems and any("[[:" in p for p in patterns):
        # differential classification: the same query with the POSIX-class patterns removed from the list; if code and
        # git agree then, the disagreement is due to those patterns
        problems[0]["agrees_without_posix_class_patterns"] = agrees_without(git, root, realroot, patterns, problems[0])
    if problems and any("?" in p or "[" in p for p in patterns) and not str(problems[0].get("relative", problems[0].get("observed", ""))).isascii():
        # differential classification as above, for the single-character wildcards on names outside ASCII
        problems[0]["agrees_without_single_character_wildcards"] = agrees_without(git, root, realroot, patterns, problems[0],
                                                                                   drop=lambda p: "?" in p or "[" in p)
    if problems:
        mech = classify(patterns, problems[0].get("observed"), problems[0])
        acc.violated({"input": case, "witness": {"patterns": patterns, "problems": problems[:6], "files": tree["files"],
                                                  "links": tree["links"]}},
                     mechanism=mech, cells=cells, nontrivial=nontriv, cls=cls)
    else:
        acc.held(cells=cells, nontrivial=nontriv, cls=cls,
                 sample={"files": tree["files"], "links": tree["links"], "patterns": patterns,
                         "members": n_member, "excluded_queries": n_excl})


def check_multi_directory(ctx, git, tree, patterns, root, realroot):
    """A code base made of TWO directories of the tree: a file is a member iff it lies under one of them (by path
    components) and the patterns, read relative to the directory that contains it, do not exclude it."""
    from codebasin import CodeBase
    acc = ctx.acc
    tops = sorted({d.split("/")[0] for d in tree["dirs"] if d and not os.path.islink(os.path.join(root, d.split("/")[0]))})
    if len(tops) < 2:
        return
    # prefer a pair of names of which one extends the other
    pair = next(((a, b) for a in tops for b in tops if a != b and b.startswith(a)), (tops[0], tops[1]))
    dirs = [os.path.join(realroot, x) for x in pair]
    cells = {"multi-directory-code-base"}
    given = list(dirs)
    if len(tree["files"]) % 2 == 1:
        # a directory that does not exist (a stale entry of a configuration) between the two: it contributes nothing
        given = [dirs[0], os.path.join(realroot, "no-such-directory"), dirs[1], os.path.join(realroot, "gone", "too")]
        cells.add("multi-directory:non-existent-directory-listed")
    if pair[1].startswith(pair[0]):
        cells.add("multi-directory:name-prefix-related")
    try:
        cb = CodeBase(*given, exclude_patterns=list(patterns))
    except Exception as e:
        acc.violated({"input": {"tree": tree, "patterns": patterns, "directories": list(pair)},
                      "witness": {"observed": f"constructor {type(e).__name__}: {e}"}}, mechanism=classify(patterns, f"{type(e).__name__}: {e}", None), cells=cells, cls="multi")
        return
    cand = []
    for dp, dn, fn in os.walk(realroot):
        for name in fn:
            cand.append(os.path.join(dp, name))
    want = {}
    ign_by_dir = {}
    for d in dirs:
        rels = [os.path.relpath(os.path.realpath(c), d) for c in cand if (os.path.realpath(c) + "/").startswith(d + "/")]
        pars = {"/".join(r.split("/")[:i]) for r in rels for i in range(1, len(r.split("/")))}
        ign_by_dir[d] = git.ignored(d, patterns, sorted(set(rels) | pars))
    problems = []
    for c in cand:
        real = os.path.realpath(c)
        home = next((d for d in dirs if (real + "/").startswith(d + "/")), None)
        exp = bool(home) and os.path.isfile(real) and ext_of(real) in EXTENSIONS and not ign_by_dir[home].get(os.path.relpath(real, home), False)
        want[c] = exp
        try:
            obs = c in cb
        except Exception as e:
            obs = f"{type(e).__name__}: {e}"
        acc.hook("H-contains")
        if obs is not exp:
            rel = os.path.relpath(real, home) if home else None
            problems.append({"query": c, "expected": exp, "observed": obs, "reason": "excluded" if (home and not exp and ext_of(real) in EXTENSIONS) else "member" if exp else "outside",
                             "parent_dir_ignored": bool(home) and any(ign_by_dir[home].get("/".join(rel.split("/")[:i])) for i in range(1, len(rel.split("/")))),
                             "cwd": realroot, "multi": list(pair)})
    try:
        listed = {os.path.realpath(p) for p in cb}
        members = {os.path.realpath(c) for c, e in want.items() if e}
        if listed != members and not problems:
            problems.append({"query": "list(CodeBase) over two directories", "expected": sorted(os.path.relpath(x, realroot) for x in members),
                             "observed": sorted(os.path.relpath(x, realroot) for x in listed)})
    except Exception as e:
        problems.append({"query": "list(CodeBase) over two directories", "observed": f"{type(e).__name__}: {e}"})
    case = {"tree": tree, "patterns": patterns, "directories": list(pair)}
    if problems:
        p0 = problems[0]
        mech = None
        if True:
            # the single-directory classifiers apply unchanged (same pattern semantics)
            if p0.get("query", "").startswith("list("):
                mech = None
            else:
                if any("[[:" in p for p in patterns):
                    # differential: the same query without the POSIX-class patterns
                    try:
                        p2 = [p for p in patterns if "[[:" not in p]
                        real = os.path.realpath(p0["query"])
                        home = next((d for d in dirs if (real + "/").startswith(d + "/")), None)
                        ign2 = git.ignored(home, p2, [os.path.relpath(real, home)]) if home else {}
                        exp2 = bool(home) and os.path.isfile(real) and ext_of(real) in EXTENSIONS and \
                            not ign2.get(os.path.relpath(real, home), False)
                        p0["agrees_without_posix_class_patterns"] = (p0["query"] in CodeBase(*dirs, exclude_patterns=p2)) is exp2
                    except Exception:
                        p0["agrees_without_posix_class_patterns"] = False
                mech = classify(patterns, p0.get("observed"), p0)
        acc.violated({"input": case, "witness": {"patterns": patterns, "directories": list(pair), "problems": problems[:5]}}, mechanism=mech, cells=cells, cls="multi")
    else:
        acc.held(cells=cells, cls="multi", nontrivial=case if any(want.values()) and not all(want.values()) else None)


def agrees_without(git, root, realroot, patterns, problem, drop=lambda p: "[[:" in p):
    from codebasin import CodeBase
    p2 = [p for p in patterns if not drop(p)]
    try:
        cb2 = CodeBase(root, exclude_patterns=p2)
        if problem.get("query") == "list(CodeBase)":
            listed = {os.path.relpath(os.path.realpath(x), realroot) for x in cb2}
            cand = sorted(set(problem.get("expected", [])) | set(problem.get("observed", [])) | listed)
            cand = [c for c in cand if not c.startswith("..")]
            ign = git.ignored(realroot, p2, cand)
            return all((c in listed) == (not ign.get(c, False)) for c in cand)
        full = problem["query"] if os.path.isabs(problem["query"]) else os.path.join(os.path.realpath(problem["cwd"]), problem["query"])
        rel = os.path.relpath(os.path.realpath(full), realroot)
        ign = git.ignored(realroot, p2, [rel])
        return (os.path.realpath(full) in cb2) == (not ign.get(rel, False))
    except Exception:
        return False


def classify(patterns, observed, problem):
    """Known-finding predicates (on the pattern list and the failing query)."""
    pats = [p for p in patterns]
    if any("[[:" in p for p in pats) and problem and problem.get("reason") in ("excluded", "member", None) \
            and problem.get("agrees_without_posix_class_patterns"):
        return "posix-character-class-in-pattern"
    if problem and problem.get("agrees_without_single_character_wildcards") and problem.get("reason") in ("excluded", "member", None):
        # git's wildmatch works on bytes: `?` and a bracket expression match ONE BYTE, so `caf?.c` does not match
        # caf\u00e9.c (two bytes in UTF-8) and `caf??.c` does; pathspec matches one character
        return "single-character-wildcard-matches-a-character-not-a-byte"
    if any(p.strip() == "!" for p in pats) and isinstance(observed, str) and "Error" in observed:
        return "lone-bang-pattern-raises"
    if problem and problem.get("expected") is False and problem.get("reason") == "excluded" and problem.get("observed") is True \
            and "\n" in (str(problem.get("query", "")) + str(problem.get("relative", "")) + str(problem.get("cwd", ""))):
        # git's wildcards (and the implicit "everything below a matched directory") match a line feed inside a name,
        # pathspec's regular expressions (`.*` without DOTALL) do not
        return "wildcard-does-not-match-newline-in-file-name"
    if problem and str(problem.get("query", "")).startswith("list(") \
            and isinstance(problem.get("observed"), list) and isinstance(problem.get("expected"), list) \
            and set(problem["expected"]) < set(problem["observed"]) and all("\n" in x for x in set(problem["observed"]) - set(problem["expected"])):
        return "wildcard-does-not-match-newline-in-file-name"
    if problem and problem.get("expected") is False and problem.get("reason") == "excluded" and problem.get("observed") is True:
        # git: a file below an excluded directory cannot be re-included (git itself reports a parent directory as ignored)
        if any(p.startswith("!") for p in pats) and problem.get("parent_dir_ignored"):
            return "negation-reincludes-below-excluded-directory"
    if problem and problem.get("query") == "list(CodeBase)" and any(p.startswith("!") for p in pats):
        if problem.get("every_extra_below_ignored_dir"):
            return "negation-reincludes-below-excluded-directory"
    return None


def run_shard(ctx):
    b = bounds(ctx.tier)
    git = GitIgnore(ctx.scratch)
    base = os.path.join(ctx.scratch, "case")
    rng = ctx.rng("trees")
    fixed_tree = {"dirs": ["", "src", "src/sub", "src/sub/deep", "third-party", "build", "doc", "doc/a", "doc/a/b", "a", "a/x", "a/x/b"],
                  "files": ["main.c", "src/main.c", "src/util.h", "src/sub/x.c", "src/sub/deep/x.c", "third-party/keep.h",
                            "third-party/lib.c", "build/gen.c", "doc/a/b/ex.c", "a/x/b/y.c", "a/b/../x/z.c".replace("a/b/../", "a/"),
                            "!neg.c", "#h.c", "x[1].c", "st*r.c", "a b.c", "foo", "Foo.c", "foo.c", "src/aXb.c", "src/bcd.c"],
                  "links": {"src/lnk.c": ("in", "main.c"), "dl": ("in", "src/sub")}, "outside": [],
                  "link_kinds": ["file-inside", "dir-inside"]}
    i = 0
    for pats in MANUAL_PATTERN_LISTS:
        i += 1
        if ctx.mine(i):
            check_case(ctx, git, fixed_tree, pats, {"pat:manual"}, base, "manual")
    # names that are canonically equivalent under Unicode normalisation but different byte strings (two distinct files on
    # this file system; git compares bytes)
    nfc, nfd = "caf\u00e9", "cafe\u0301"
    twin_tree = {"dirs": ["", "src", nfc, "src/" + nfd], "files": [f"src/{nfc}.c", f"src/{nfd}.c", f"{nfc}/x.c", f"src/{nfd}/y.h", "src/cafe.c",
                                                                   "\u00c5.c", "A\u030a.c", "\u212b.c",
                                                                   # names made of dots and an extension; hidden files named like an extension
                                                                   "src/..c", "...h", "src/..F90", ".c", "src/.h", ".inc", "a..c", "src/.hidden.cpp", "..", "src/.c.c"][:-2] + ["src/.c.c"],
                 "links": {}, "outside": [], "link_kinds": []}
    for j, pats in enumerate([[f"src/{nfc}.c"], [f"*/{nfd}.c"], [f"{nfc}/"], [f"{nfd}/"], [f"src/{nfd}/"], ["caf?.c"], ["caf??.c"], [f"{nfc}*", f"!{nfd}.c"],
                              ["\u00c5.c"], ["A\u030a.c"], ["\u212b.c"], [f"/src/{nfd}.c", f"!/src/{nfc}.c"], [f"**/{nfc}.c"], [], ["*.c"], ["..c", "!...h"], [".*"], ["*.h", ".c"]]):
        i += 1
        if ctx.mine(i):
            check_case(ctx, git, twin_tree, pats, {"name:canonically-equivalent-spellings", "name:dots-and-extension"}, base, "manual")
    for i in range(b["trees"]):
        tree = gen_tree(rng)
        pats, feats = gen_patterns(rng, tree)
        if ctx.mine(i):
            check_case(ctx, git, tree, pats, feats, base, "random")
    shutil.rmtree(base, ignore_errors=True)
    ctx.acc.hook("git-calls", git.calls)


def replay(record, ctx):
    git = GitIgnore(ctx.scratch)
    case = record["input"]
    check_case(ctx, git, case["tree"], case["patterns"], set(), os.path.join(ctx.scratch, "case"), "replay")
    return {"verdict": "violated" if ctx.acc.verdicts["violated"] else "held", "violations": ctx.acc.violations}
