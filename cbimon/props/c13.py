"""
C13 -- compilation-database entries resolve to the right files and directories.

Monitored execution: config.load_database on generated databases over a fixed
multi-directory tree (inside/outside build directories, a directory symlink),
then finder.find; observed: entry['file'], entry['include_paths'], H-log
records, per-line attribution.  Oracles: pathmodel + os.path.samefile, and gcc
run with cwd=directory and the command as written (markers tell which main
file and which headers it really read).
"""

import itertools
import json
import os
import shutil

from cbimon import cbi, hooks
from cbimon.oracles import gcc

PROP = "C13"
RULE = ("database = 1..5 entries over a fixed tree; each entry picks a working directory (none, root, build dir inside "
        "the root, build dir outside it, via a directory symlink) and spells `directory` (absolute / relative to root / "
        "with . and ..), `file` and every -I value (absolute / relative to that directory / with ..) independently; "
        "mixed with entries for a missing file, an object file, a link command, command \"\" and arguments []. "
        "E: the full spelling grid for single entries; R: random multi-entry databases. Non-trivial: >=1 relative "
        "spelling; distinct by database.")
ASSUMPTIONS = ["pathmodel (appendix A.7) confirmed by os.path.samefile and by gcc run in the entry's directory",
               "when `directory` is absent, paths are relative to the analysis root (the documented fallback)",
               "warning is demanded for missing files only; non-source / empty commands must be skipped silently or loudly"]
REQUIRED_HOOKS = ["load_database", "H-gcc-cwd", "H-log"]

TREE = {
    "src/a.c": '#include "h.h"\ncbi_m_a_2;\n#ifdef FROM_H\ncbi_m_a_4;\n#endif\n#ifdef PRE\ncbi_m_a_7;\n#else\ncbi_m_a_9;\n#endif\n'
               '#ifdef PRE2_SRC\ncbi_m_a_12;\n#endif\n#ifdef PRE2_INC\ncbi_m_a_15;\n#endif\n',
    # `-include pre2.h`: a compiler looks in its working directory and then along the search path -- never beside the
    # source file, where a decoy of the same name sits
    # the same directory NAME below the root and below the build directory, with different contents
    "src/e.c": "#include <cx.h>\ncbi_m_e_2;\n#ifdef CX_BUILD\ncbi_m_e_4;\n#endif\n#ifdef CX_ROOT\ncbi_m_e_7;\n#endif\n",
    "incx/cx.h": "#define CX_ROOT 1\ncbi_m_cxr_2;\n",
    "build/incx/cx.h": "#define CX_BUILD 1\ncbi_m_cxb_2;\n",
    # a quote include that no directory of the command satisfies (the header is generated at build time), while a file
    # of that name lies in the analysis root -- which is neither the includer's directory nor on the search path
    "src/f.c": '#include "gencfg.h"\ncbi_m_f_2;\n#ifdef LEGACY\ncbi_m_f_4;\n#endif\n',
    "gencfg.h": "#define LEGACY 1\ncbi_m_rootcfg_2;\n",
    "src/pre2.h": "#define PRE2_SRC 1\ncbi_m_p2s_2;\n",
    "inc/pre2.h": "#define PRE2_INC 1\ncbi_m_p2i_2;\n",
    # needs a search directory whose name contains a blank; tests the macro of a forced include
    "src/d.c": '#include <sp.h>\ncbi_m_d_2;\n#ifdef SP\ncbi_m_d_4;\n#endif\n#ifdef PRE\ncbi_m_d_7;\n#else\ncbi_m_d_9;\n#endif\n',
    "my inc/sp.h": "#define SP 1\ncbi_m_sp_2;\n",
    "cfg/pre.h": "#define PRE 1\ncbi_m_pre_2;\n",
    "src/sub/b.c": '#include "h.h"\n#include <g.h>\ncbi_m_b_3;\n',
    "src/c.cpp": "cbi_m_c_1;\n#ifdef X\ncbi_m_c_3;\n#endif\n",
    "inc/h.h": "#define FROM_H 1\ncbi_m_h_2;\n",
    "inc2/g.h": "cbi_m_g_1;\n",
    "other/unnamed.c": "cbi_m_u_1;\n",
    "src/ca.c": "#include <config.h>\ncbi_m_ca_2;\n#ifdef CFG_A\ncbi_m_ca_4;\n#else\ncbi_m_ca_6;\n#endif\n",
    "src/cb.c": "#include <config.h>\ncbi_m_cb_2;\n#ifdef CFG_A\ncbi_m_cb_4;\n#else\ncbi_m_cb_6;\n#endif\n",
    "build/a/config.h": "#define CFG_A 1\ncbi_m_cfga_2;\n",
    "build/b/config.h": "#define CFG_B 1\ncbi_m_cfgb_2;\n",
    "build/obj.o": "\x7fELF",
    "gpu/kernel.hip": "__global__ void k();\n",
    "gpu/notes.md": "# notes\n",
    "build/gen.txt": "x\n",
}
DIRS = ["src", "src/sub", "inc", "inc2", "other", "other/gen.c", "build", "build/deep", "build/a", "build/b", "my inc", "cfg", "gpu", "incx", "build/incx"]


def bounds(tier):
    return {"random": 150 if tier == "quick" else 5000}


def required_cells(tier):
    cells = []
    for d in ("absent", "abs", "rel", "dots"):
        cells.append("directory:" + d)
    for f in ("abs", "rel", "dots", "via-link"):
        cells.append("file:" + f)
    for i in ("abs", "rel", "dots"):
        cells.append("inc:" + i)
    cells += ["wd:root", "wd:build-inside", "wd:build-outside", "skip:missing/first", "skip:missing/middle", "skip:missing/last",
              "skip:object", "skip:link", "skip:empty-command", "skip:empty-arguments", "skip:blank-command", "relative-I-missing-in-build-dir", "unnamed-file-unattributed",
              "gcc-confirmed", "class:grid", "class:random", "same-spelling-different-build-dirs", "identical-command-in-two-build-directories", "same-file-spelling-missing-in-one-directory", "forced-include-by-name:search-path-not-source-directory", "relative-I-also-exists-below-process-cwd:cwd=root",
              "relative-I-also-exists-below-process-cwd:cwd=build", "directory-is-file-system-root", "unresolvable-quote-include-with-same-named-file-in-root", "dotdot-after-directory-link:file", "dotdot-after-directory-link:inc",
              "dotdot-after-directory-link:dir", "dotdot-after-directory-link:pre", "dotdot-after-directory-link:all", "forced-include:rel",
              "forced-include:abs", "forced-include:dots", "search-dir-with-blank:command", "search-dir-with-blank:arguments",
              "header-compiled-on-its-own", "compiled-files-excluded-by-pattern", "skip:missing-long-name", "skip:missing-below-a-file",
              "skip:non-source:hip", "skip:non-source:md", "skip:directory-named-like-a-source-file", "skip:unparsable-command", "dependency-generation-options",
              "cli:logical-working-directory"]
    return cells


def build(base):
    root = os.path.join(base, "proj")
    shutil.rmtree(base, ignore_errors=True)
    for d in DIRS:
        os.makedirs(os.path.join(root, d))
    for rel, text in TREE.items():
        with open(os.path.join(root, rel), "w") as f:
            f.write(text)
    os.makedirs(os.path.join(base, "outbuild"))
    os.symlink("src", os.path.join(root, "lnk"))
    # directory links whose `..` leads somewhere else than the lexical parent of the link:
    #   dlnk/..  is src          (dlnk -> src/sub)
    #   src/ilnk/..  is inc, src/ilnk2/..  is inc2, src/clnk/.. is cfg
    os.symlink(os.path.join("src", "sub"), os.path.join(root, "dlnk"))
    for l, t in (("ilnk", "inc"), ("ilnk2", "inc2"), ("clnk", "cfg")):
        os.makedirs(os.path.join(root, t, "below"))
        os.symlink(os.path.join("..", t, "below"), os.path.join(root, "src", l))
    return root


def spell(path, wd, style):
    """Spell absolute `path` for a process running in `wd`."""
    if style == "abs":
        return path
    rel = os.path.relpath(path, wd)
    if style == "rel":
        return rel
    if style == "dots":
        head = os.path.basename(wd.rstrip("/")) or "."
        return os.path.join("..", head, ".", rel) if head != "." else os.path.join(".", rel)
    raise ValueError(style)


def make_entry(root, base, src, wd_kind, dstyle, fstyle, istyle, defines=(), form="arguments", pre=None, extra=()):
    """One correct database entry for source `src` (root-relative) compiled in working directory wd_kind."""
    wd = {"absent": root, "root": root, "build-inside": os.path.join(root, "build"),
          "build-deep": os.path.join(root, "build", "deep"), "build-outside": os.path.join(base, "outbuild")}[wd_kind]
    srcpath = os.path.join(root, src)
    if fstyle == "after-link":
        assert os.path.dirname(src) == "src"
        fsp = os.path.join(os.path.relpath(os.path.join(root, "dlnk"), wd), "..", os.path.basename(src))
    elif fstyle == "via-link" and src.startswith("src/"):
        fsp = os.path.relpath(os.path.join(root, "lnk", src[4:]), wd)
    elif fstyle == "via-link":
        fsp = spell(srcpath, wd, "rel")
    else:
        fsp = spell(srcpath, wd, fstyle)
    if istyle == "after-link":
        incs = [os.path.join(os.path.relpath(os.path.join(root, "src", l), wd), "..") for l in ("ilnk", "ilnk2")]
    else:
        incs = [spell(os.path.join(root, "inc"), wd, istyle), spell(os.path.join(root, "inc2"), wd, "abs" if istyle == "rel" else istyle)]
    argv = ["gcc"] + ["-D" + d for d in defines]
    argv += ["-I", incs[0], "-I" + incs[1]]
    want_inc = [os.path.join(root, "inc"), os.path.join(root, "inc2")]
    if src == "src/d.c":
        sp = spell(os.path.join(root, "my inc"), wd, "dots" if istyle == "after-link" else istyle)
        argv += ["-I", sp] if len(defines) % 2 == 0 else ["-I" + sp]
        want_inc.append(os.path.join(root, "my inc"))
    if pre:
        # forced include spelled for a process running in wd (a compiler looks there first)
        if pre == "after-link":
            argv += ["-include", os.path.join(os.path.relpath(os.path.join(root, "src", "clnk"), wd), "..", "pre.h")]
        else:
            argv += ["-include", spell(os.path.join(root, "cfg", "pre.h"), wd, pre)]
    if src.endswith(".h") and not any(x.startswith("-x") for x in extra):
        extra = list(extra) + ["-x", "c-header"]           # a header compiled on its own (precompiled header), as CMake emits
    argv += list(extra)
    argv += ["-c", fsp]
    e = {"file": fsp}
    if wd_kind != "absent":
        if dstyle == "abs":
            e["directory"] = wd
        elif dstyle == "after-link":
            assert wd.startswith(root)
            e["directory"] = os.path.normpath(os.path.join("dlnk", "..", "..", os.path.relpath(wd, root))) if False else \
                os.path.join("dlnk", "..", "..", os.path.relpath(wd, root))
        elif dstyle == "rel":
            e["directory"] = os.path.relpath(wd, root)
        else:
            e["directory"] = os.path.join(".", os.path.relpath(wd, root), "..", os.path.basename(wd)) if wd != root else "./"
    if form == "arguments":
        e["arguments"] = argv
    else:
        import shlex
        e["command"] = shlex.join(argv)
    meta = {"src": src, "wd": wd, "wd_kind": wd_kind, "dstyle": dstyle if wd_kind != "absent" else "absent",
            "fstyle": fstyle, "istyle": istyle, "argv": argv, "defines": list(defines), "want_inc": want_inc, "pre": pre}
    return e, meta


SKIPS = {
    "missing": lambda root: {"file": "src/generated_later.c", "directory": root, "arguments": ["gcc", "-c", "src/generated_later.c"]},
    "object": lambda root: {"file": "build/obj.o", "directory": root, "arguments": ["gcc", "-c", "build/obj.o"]},
    "link": lambda root: {"file": "build/app", "directory": root, "command": "gcc -o build/app build/obj.o"},
    # files whose extension is not a source extension (whatever compiler the entry names)
    "non-source:hip": lambda root: {"file": "gpu/kernel.hip", "directory": root, "arguments": ["hipcc", "-c", "gpu/kernel.hip"]},
    "non-source:md": lambda root: {"file": "gpu/notes.md", "directory": root, "arguments": ["gcc", "-c", "gpu/notes.md"]},
    "empty-command": lambda root: {"file": "src/a.c", "directory": root, "command": ""},
    "empty-arguments": lambda root: {"file": "src/a.c", "directory": root, "arguments": []},
    "blank-command": lambda root: {"file": "src/a.c", "directory": root, "command": " "},
    "tab-command": lambda root: {"file": "src/a.c", "directory": root, "command": "\t \n"},
    # a generated file that does not exist (yet) and whose name is longer than a file name may be (stat fails with
    # ENAMETOOLONG, not ENOENT), and one below a path component that is a regular file (ENOTDIR)
    "missing-long-name": lambda root: {"file": "src/" + "g" * 300 + ".c", "directory": root, "arguments": ["gcc", "-c", "src/" + "g" * 300 + ".c"]},
    "missing-below-a-file": lambda root: {"file": "src/a.c/gen.c", "directory": root, "arguments": ["gcc", "-c", "src/a.c/gen.c"]},
    # a command string that the shell could not split either (a quote that is never closed)
    "unparsable-command": lambda root: {"file": "src/a.c", "directory": root, "command": "gcc -DNAME=\"unterminated -c src/a.c"},
    # a DIRECTORY whose name ends in a source extension (an unpacked bundle, a generator's output directory): not a file
    "directory-named-like-a-source-file": lambda root: {"file": "gen.c", "directory": os.path.join(root, "other"), "arguments": ["gcc", "-c", "gen.c"]},
}


def gcc_truth(meta):
    """Run gcc in the entry's directory with the command as written; returns set of live markers or None."""
    argv = []
    skip = False
    for a in meta["argv"][1:]:
        if skip:
            skip = False
        elif a in ("-o", "-MF", "-MT", "-MQ"):
            skip = True          # the output file of the real command is irrelevant for -E to stdout
        elif a in ("-M", "-MM", "-MD", "-MMD", "-MP", "-MG"):
            pass                 # dependency generation replaces / accompanies the output, it does not change what is read
        elif a != "-c":
            argv.append(a)
    rc, out, err = gcc.run(gcc.BASE + ["-P"] + argv, cwd=meta["wd"])
    if rc != 0 or err.strip():
        return None, err
    return set(gcc.MARK.findall(out)), ""


def marker_lines(root):
    """{marker: (root-relative file, line)}"""
    out = {}
    for rel, text in TREE.items():
        for i, ln in enumerate(text.split("\n"), 1):
            for m in gcc.MARK.findall(ln):
                out[m] = (rel, i)
    return out


def check_db(ctx, base, root, entries, metas, skips, cls):
    """entries: list in database order; metas aligned (None for skip entries)."""
    from codebasin import config
    acc = ctx.acc
    db = os.path.join(base, "compile_commands.json")
    with open(db, "w") as f:
        json.dump(entries, f)
    cells = {"class:" + cls}
    for m in metas:
        if m:
            if m.get("pre"):
                cells.add("forced-include:" + m["pre"])
            if "c-header" in " ".join(m["argv"]):
                cells.add("header-compiled-on-its-own")
            if any(a in ("-M", "-MM", "-MD") for a in m["argv"]):
                cells.add("dependency-generation-options")
            if m["src"] == "src/d.c":
                cells.add("search-dir-with-blank:" + ("command" if "command" in entries[metas.index(m)] else "arguments"))
            cells.add("directory:" + m["dstyle"])
            cells.add("file:" + m["fstyle"])
            cells.add("inc:" + m["istyle"])
            cells.add("wd:" + {"absent": "root", "build-deep": "build-inside"}.get(m["wd_kind"], m["wd_kind"]))
    for kind, pos in skips:
        cells.add(f"skip:{kind}/{pos}" if kind == "missing" else f"skip:{kind}")
    case = {"entries": entries}
    nontriv = entries if any(m and (m["fstyle"] != "abs" or m["istyle"] != "abs" or m["dstyle"] in ("rel", "dots")) for m in metas) else None
    problems = []
    try:
        with hooks.monitor() as ev:
            conf = config.load_database(db, root)
        acc.hook("load_database")
        acc.hook("H-log", len(ev.logs))
    except Exception as e:
        problems.append({"kind": "load_database-raises", "observed": f"{type(e).__name__}: {e}"})
        conf = None
    good = [m for m in metas if m]
    if conf is not None:
        defaults = [e for e in conf if e.get("pass_name", "default") == "default"]
        if len(defaults) != len(good):
            problems.append({"kind": "entry-count", "expected": len(good), "observed": len(defaults),
                             "files": [e["file"] for e in defaults]})
        else:
            for e, m in zip(defaults, good):
                want = os.path.join(root, m["src"])
                if not (os.path.exists(e["file"]) and os.path.samefile(e["file"], want)):
                    problems.append({"kind": "file-resolution", "entry": m["argv"], "directory": m["wd"], "expected": want, "observed": e["file"]})
                wi = list(m.get("want_inc") or [os.path.join(root, "inc"), os.path.join(root, "inc2")])
                if m.get("n_inc") == 3:
                    wi = [m["wd"]] + wi
                oi = e["include_paths"]
                if len(oi) != len(wi) or not all(os.path.isdir(o) and os.path.samefile(o, w) for o, w in zip(oi, wi)):
                    problems.append({"kind": "include-dir-resolution", "entry": m["argv"], "directory": m["wd"], "dstyle": m["dstyle"],
                                     "istyle": m["istyle"], "expected": wi, "observed": oi})
                if e["defines"] != m["defines"]:
                    problems.append({"kind": "defines", "expected": m["defines"], "observed": e["defines"]})
        n_missing = sum(1 for k, _ in skips if k.startswith("missing"))
        warned = [w for w in ev.warnings() if "non-existent file" in w]
        if len(warned) != n_missing:
            problems.append({"kind": "missing-file-warning", "expected": n_missing, "observed": warned})
        # end-to-end: attribution vs gcc run in the entry's directory
        if not problems and good:
            try:
                state, _ = cbi.run_find(root, {"p": conf})
                ml = marker_lines(root)
                live = set()
                ok = True
                for m in good:
                    g, err = gcc_truth(m)
                    acc.hook("H-gcc-cwd")
                    if g is None:
                        acc.oracle_disagreement({"entry": m["argv"], "cwd": m["wd"], "gcc_stderr": err[:300]})
                        ok = False
                        break
                    live |= g
                if not ok:
                    return
                cells.add("gcc-confirmed")
                for mk, (rel, ln) in ml.items():
                    p = os.path.join(root, rel)
                    used = ln in cbi.used_lines(state, p, "p") if state.get_tree(p) is not None else False
                    if used != (mk in live):
                        problems.append({"kind": "attribution-vs-gcc", "marker": mk, "file": rel, "line": ln,
                                         "expected_used": mk in live, "observed_used": used})
                if "cbi_m_u_1" not in live:
                    cells.add("unnamed-file-unattributed")
                # the same analysis with every compiled file excluded from the code base by pattern: the entries are
                # still preprocessed, so what they include keeps its attribution
                state2, _ = cbi.run_find(root, {"p": conf}, exclude_patterns=["/src/", "/lnk"])
                cells.add("compiled-files-excluded-by-pattern")
                for mk, (rel, ln) in ml.items():
                    if rel.startswith("src/"):
                        continue
                    p = os.path.join(root, rel)
                    used = ln in cbi.used_lines(state2, p, "p") if state2.get_tree(p) is not None else False
                    if used != (mk in live):
                        problems.append({"kind": "attribution-vs-gcc with the compiled files excluded by pattern", "marker": mk, "file": rel,
                                         "line": ln, "expected_used": mk in live, "observed_used": used})
            except Exception as e:
                problems.append({"kind": "find-raises", "observed": f"{type(e).__name__}: {e}"})
    if problems:
        acc.violated({"input": case, "witness": {"problems": problems[:6], "entries": entries}},
                     mechanism=classify(problems, metas), cells=cells, nontrivial=nontriv, cls=cls)
    else:
        acc.held(cells=cells, nontrivial=nontriv, cls=cls, sample={"entries": entries})


def cli_logical_cwd(ctx, base):
    """The command line tool started in a directory that is reached through a symbolic link, with $PWD holding the
    logical spelling (as a shell exports it): `..` in a relative -I / file / directory climbs from the PHYSICAL
    directory, as it does for a compiler started there.  gcc run in the same directory is the oracle."""
    from cbimon import cli
    acc = ctx.acc
    t = os.path.join(base, "logical")
    shutil.rmtree(t, ignore_errors=True)
    proj = os.path.join(t, "real", "deep", "proj")
    os.makedirs(os.path.join(proj, "src"))
    os.makedirs(os.path.join(t, "real", "deep", "include"))          # what ../include is for a process in proj
    os.makedirs(os.path.join(t, "include"))                          # what it would be after lexical normalisation of link/..
    with open(os.path.join(t, "real", "deep", "include", "cfg.h"), "w") as f:
        f.write("#define REAL_CFG 1\ncbi_m_real_2;\n")
    with open(os.path.join(t, "include", "cfg.h"), "w") as f:
        f.write("#define DECOY_CFG 1\ncbi_m_decoy_2;\n")
    main = "#include <cfg.h>\n#ifdef REAL_CFG\ncbi_m_main_3;\n#endif\n#ifdef DECOY_CFG\ncbi_m_main_6;\n#endif\ncbi_m_main_8;\n"
    with open(os.path.join(proj, "src", "main.c"), "w") as f:
        f.write(main)
    link = os.path.join(t, "link")
    os.symlink(os.path.join("real", "deep", "proj"), link)
    variants = [({"file": "src/main.c"}, ["-I../include"]), ({"file": "src/main.c", "directory": "."}, ["-I", "../include"]),
                ({"file": "main.c", "directory": "src"}, ["-I../../include"]), ({"file": "../proj/src/main.c"}, ["-isystem", "../include"])]
    for i, (entry, inc) in enumerate(variants):
        e = dict(entry, arguments=["gcc"] + inc + ["-c", entry["file"]])
        wd = os.path.normpath(os.path.join(proj, entry.get("directory", ".")))
        rc_, out_, err_ = gcc.run(gcc.BASE + ["-P"] + inc + [entry["file"]], cwd=wd)
        live = set(gcc.MARK.findall(out_))
        if rc_ != 0 or err_.strip():
            acc.oracle_disagreement({"entry": e, "gcc_stderr": err_[:200]})
            continue
        with open(os.path.join(proj, "db.json"), "w") as f:
            json.dump([e], f)
        with open(os.path.join(proj, "analysis.toml"), "w") as f:
            f.write('[platform.p]\ncommands = "db.json"\n')
        dump = os.path.join(t, "dump.json")
        rc, out, err = cli.run("codebasin", ["-R", "summary", "analysis.toml"], link, launch={"dump": dump}, extra_env={"PWD": link})
        acc.hook("cli-runs")
        problems = []
        if rc != 0:
            problems.append({"kind": "cli failed", "stderr": err[-300:], "stdout": out[-300:]})
        else:
            d = json.load(open(dump))
            used = set()
            for fn, per in d["attribution"].items():
                text = open(fn).read().split("\n")
                for ln, ps in per.items():
                    if ps and gcc.MARK.findall(text[int(ln) - 1]):
                        used.add(gcc.MARK.findall(text[int(ln) - 1])[0])
            if used != live:
                problems.append({"kind": "attribution-vs-gcc from a symlinked working directory", "expected": sorted(live), "observed": sorted(used)})
        cells = {"cli:logical-working-directory"}
        if problems:
            acc.violated({"input": {"entries": [e], "cwd": "link -> real/deep/proj", "PWD": "logical"}, "witness": {"entries": [e], "problems": problems}}, cells=cells, cls="cli")
        else:
            acc.held(cells=cells, cls="cli", nontrivial=e)


def classify(problems, metas):
    return None


def run_shard(ctx):
    base = os.path.join(ctx.scratch, "c13")
    root = build(base)
    root = os.path.realpath(root)
    base = os.path.realpath(base)
    idx = 0
    # E: spelling grid for single entries
    for src, wd_kind, dstyle, fstyle, istyle, form in itertools.product(
            ["src/a.c", "src/sub/b.c", "src/d.c", "inc/h.h"], ["absent", "root", "build-inside", "build-deep", "build-outside"],
            ["abs", "rel", "dots"], ["abs", "rel", "dots", "via-link"], ["abs", "rel", "dots"], ["arguments", "command"]):
        if wd_kind == "absent" and dstyle != "abs":
            continue
        if wd_kind == "build-outside" and dstyle != "abs":
            continue        # a directory outside the root has no root-relative spelling worth testing... keep absolute
        idx += 1
        if not ctx.mine(idx):
            continue
        e, m = make_entry(root, base, src, wd_kind, dstyle, fstyle, istyle, form=form, pre=[None, "rel", "abs", "dots"][idx % 4])
        check_db(ctx, base, root, [e], [m], [], "grid")
    # skipped entries in first / middle / last position
    for kind in SKIPS:
        for pos in ("first", "middle", "last"):
            idx += 1
            if not ctx.mine(idx):
                continue
            e1, m1 = make_entry(root, base, "src/a.c", "root", "abs", "rel", "rel")
            e2, m2 = make_entry(root, base, "src/c.cpp", "build-inside", "abs", "rel", "abs", defines=["X"])
            sk = SKIPS[kind](root)
            if pos == "first":
                es, ms = [sk, e1, e2], [None, m1, m2]
            elif pos == "middle":
                es, ms = [e1, sk, e2], [m1, None, m2]
            else:
                es, ms = [e1, e2, sk], [m1, m2, None]
            check_db(ctx, base, root, es, ms, [(kind, pos)], "grid")
    # two entries of one platform run in different build directories, each with `-I.` and its own config.h
    for order in (0, 1):
        for form in ("arguments", "command"):
            idx += 1
            if not ctx.mine(idx):
                continue
            es, ms = [], []
            for src, sub in (("src/ca.c", "a"), ("src/cb.c", "b")):
                wd = os.path.join(root, "build", sub)
                fsp = os.path.relpath(os.path.join(root, src), wd)
                argv = ["gcc", "-I.", "-I", os.path.relpath(os.path.join(root, "inc"), wd), "-I" + os.path.join(root, "inc2"), "-c", fsp]
                e = {"file": fsp, "directory": wd if order else os.path.relpath(wd, root)}
                if form == "arguments":
                    e["arguments"] = argv
                else:
                    import shlex
                    e["command"] = shlex.join(argv)
                es.append(e)
                ms.append({"src": src, "wd": wd, "wd_kind": "build-inside", "dstyle": "abs" if order else "rel", "fstyle": "rel", "istyle": "rel",
                           "argv": argv, "defines": [], "n_inc": 3})
            if order:
                es.reverse()
                ms.reverse()
            ctx.acc.cells["same-spelling-different-build-dirs"] += 1
            check_db(ctx, base, root, es, ms, [], "grid")
            # ... and the SAME file compiled from both build directories by commands that are identical word for word:
            # two entries, two configurations (each finds its own config.h through `-I.`)
            es2, ms2 = [], []
            for sub in ("a", "b"):
                wd = os.path.join(root, "build", sub)
                fsp = os.path.relpath(os.path.join(root, "src", "ca.c"), wd)
                argv = ["gcc", "-I.", "-I", os.path.relpath(os.path.join(root, "inc"), wd), "-I" + os.path.join(root, "inc2"), "-c", fsp]
                e2 = {"file": fsp, "directory": wd if order else os.path.relpath(wd, root)}
                if form == "arguments":
                    e2["arguments"] = argv
                else:
                    import shlex
                    e2["command"] = shlex.join(argv)
                es2.append(e2)
                ms2.append({"src": "src/ca.c", "wd": wd, "wd_kind": "build-inside", "dstyle": "abs" if order else "rel", "fstyle": "rel", "istyle": "rel",
                            "argv": argv, "defines": [], "n_inc": 3})
            ctx.acc.cells["identical-command-in-two-build-directories"] += 1
            check_db(ctx, base, root, es2, ms2, [], "grid")
    # `..` after a symbolic link to a directory: the operating system (and so a compiler) climbs from the link's TARGET
    for src, wd_kind, which, form in itertools.product(["src/a.c", "src/d.c"], ["root", "build-inside", "build-deep", "build-outside"],
                                                       ["file", "inc", "dir", "pre", "all"], ["arguments", "command"]):
        if wd_kind == "build-outside" and which in ("dir", "all"):
            continue
        idx += 1
        if not ctx.mine(idx):
            continue
        al = lambda k, other: "after-link" if which in (k, "all") else other
        e, m = make_entry(root, base, src, wd_kind, al("dir", "abs"), al("file", "rel"), al("inc", "rel"), form=form,
                          pre=al("pre", [None, "rel"][idx % 2]))
        ctx.acc.cells["dotdot-after-directory-link:" + which] += 1
        check_db(ctx, base, root, [e], [m], [], "grid")
    # -include by bare name, found on the search path while a decoy sits beside the source file
    for wd_kind, fstyle, form in itertools.product(["root", "build-inside", "build-deep", "build-outside"], ["abs", "rel"], ["arguments", "command"]):
        idx += 1
        if not ctx.mine(idx):
            continue
        e, m = make_entry(root, base, "src/a.c", wd_kind, "abs", fstyle, "rel", form=form, extra=("-include", "pre2.h"))
        ctx.acc.cells["forced-include-by-name:search-path-not-source-directory"] += 1
        check_db(ctx, base, root, [e], [m], [], "grid")
    # a relative -I whose name also exists below the PROCESS working directory (the root), where it is additionally
    # named by -isystem with its absolute path: for the compiler, running in build/, these are two directories
    for cwd_kind, form, order in itertools.product(["root", "build", "elsewhere"], ["arguments", "command"], [0, 1]):
        idx += 1
        if not ctx.mine(idx):
            continue
        wd = os.path.join(root, "build")
        srcp = os.path.join(root, "src", "e.c")
        opts = ["-I", "incx", "-isystem", os.path.join(root, "incx")]
        if order:
            opts = ["-isystem" + os.path.join(root, "incx"), "-Iincx"]
        argv = ["gcc"] + opts + ["-c", "../src/e.c"]
        e = {"file": "../src/e.c", "directory": wd}
        if form == "arguments":
            e["arguments"] = argv
        else:
            import shlex
            e["command"] = shlex.join(argv)
        m = {"src": "src/e.c", "wd": wd, "wd_kind": "build-inside", "dstyle": "abs", "fstyle": "rel", "istyle": "rel", "argv": argv, "defines": [],
             "want_inc": [os.path.join(wd, "incx"), os.path.join(root, "incx")], "pre": None}
        old = os.getcwd()
        os.chdir({"root": root, "build": wd, "elsewhere": base}[cwd_kind])
        try:
            ctx.acc.cells["relative-I-also-exists-below-process-cwd:cwd=" + cwd_kind] += 1
            check_db(ctx, base, root, [e], [m], [], "grid")
        finally:
            os.chdir(old)
    # an entry whose directory is the file-system root
    for form, fstyle in itertools.product(["arguments", "command"], ["rel", "abs"]):
        idx += 1
        if not ctx.mine(idx):
            continue
        for dirsp in ("/", "//", "/./"):
            srcp = os.path.join(root, "src", "a.c")
            fsp = os.path.relpath(srcp, "/") if fstyle == "rel" else srcp
            argv = ["gcc", "-I", os.path.relpath(os.path.join(root, "inc"), "/"), "-I" + os.path.join(root, "inc2"), "-c", fsp]
            e = {"file": fsp, "directory": dirsp}
            if form == "arguments":
                e["arguments"] = argv
            else:
                import shlex
                e["command"] = shlex.join(argv)
            m = {"src": "src/a.c", "wd": "/", "wd_kind": "build-outside", "dstyle": "abs", "fstyle": fstyle, "istyle": "rel", "argv": argv, "defines": [],
                 "want_inc": [os.path.join(root, "inc"), os.path.join(root, "inc2")], "pre": None}
            ctx.acc.cells["directory-is-file-system-root"] += 1
            check_db(ctx, base, root, [e], [m], [], "grid")
    # unresolvable quote include with a same-named file in the root (gcc stops with an error, so the expectation is by
    # construction: nothing but the source file's unconditional lines is attributed)
    for wd_kind, form in itertools.product(["root", "build-inside", "build-outside"], ["arguments", "command"]):
        idx += 1
        if not ctx.mine(idx):
            continue
        from codebasin import config
        wd = {"root": root, "build-inside": os.path.join(root, "build"), "build-outside": os.path.join(base, "outbuild")}[wd_kind]
        srcp = os.path.join(root, "src", "f.c")
        argv = ["gcc", "-I", os.path.relpath(os.path.join(root, "gen-not-there"), wd), "-c", os.path.relpath(srcp, wd)]
        e = {"file": os.path.relpath(srcp, wd), "directory": wd}
        if form == "arguments":
            e["arguments"] = argv
        else:
            import shlex
            e["command"] = shlex.join(argv)
        dbp = os.path.join(base, "compile_commands.json")
        with open(dbp, "w") as f:
            json.dump([e], f)
        problems = []
        try:
            conf = config.load_database(dbp, root)
            state, _ = cbi.run_find(root, {"p": conf})
            ml = marker_lines(root)
            used = {mk for mk, (rel, ln) in ml.items() if state.get_tree(os.path.join(root, rel)) is not None and ln in cbi.used_lines(state, os.path.join(root, rel), "p")}
            if used != {"cbi_m_f_2"}:
                problems.append({"kind": "attribution with an unresolvable quote include and a same-named file in the root", "expected": ["cbi_m_f_2"], "observed": sorted(used)})
        except Exception as ex:
            problems.append({"kind": "exception", "observed": f"{type(ex).__name__}: {ex}"})
        cells = ["unresolvable-quote-include-with-same-named-file-in-root", "class:grid"]
        if problems:
            ctx.acc.violated({"input": {"entries": [e]}, "witness": {"entries": [e], "problems": problems}}, cells=cells, cls="grid")
        else:
            ctx.acc.held(cells=cells, cls="grid", nontrivial=[e])
    # one `file` spelling in two build directories: missing in the first (generated later), present in the second.
    # The warning about the first must not cost the second its place in the configuration (either order, twice each).
    for order in (0, 1, 2):
        idx += 1
        if not ctx.mine(idx):
            continue
        e1, m1 = make_entry(root, base, "src/a.c", "root", ["abs", "rel", "dots"][order], "rel", "rel")
        gone = {"file": e1["file"], "directory": os.path.join(root, "build"), "arguments": ["gcc", "-c", e1["file"]]}
        e2, m2 = make_entry(root, base, "src/a.c", "root", "abs", "rel", "abs", defines=["PRE"])
        es, ms, sk = [[gone, e1, e2], [e1, gone, e2], [gone, dict(gone), e1]][order], [[None, m1, m2], [m1, None, m2], [None, None, m1]][order], \
            [[("missing", "first")], [("missing", "middle")], [("missing", "first"), ("missing", "middle")]][order]
        ctx.acc.cells["same-file-spelling-missing-in-one-directory"] += 1
        check_db(ctx, base, root, es, ms, sk, "grid")
    # a relative -I that does not exist in the build directory although a directory of that name exists in the root:
    # the compiler would search build/<name> (nothing there), never root/<name>
    for wd_kind in ("build-inside", "build-deep", "build-outside"):
        idx += 1
        if not ctx.mine(idx):
            continue
        wd = {"build-inside": os.path.join(root, "build"), "build-deep": os.path.join(root, "build", "deep"),
              "build-outside": os.path.join(base, "outbuild")}[wd_kind]
        src = os.path.join(root, "src", "c.cpp")
        entry = {"file": src, "directory": wd, "arguments": ["gcc", "-Iinc", "-I", "inc2", "-DX", "-c", src]}
        dbp = os.path.join(base, "compile_commands.json")
        with open(dbp, "w") as f:
            json.dump([entry], f)
        from codebasin import config
        try:
            conf = [e for e in config.load_database(dbp, root) if e.get("pass_name", "default") == "default"]
            got = [os.path.normpath(p_) for p_ in conf[0]["include_paths"]]
            want = [os.path.normpath(os.path.join(wd, "inc")), os.path.normpath(os.path.join(wd, "inc2"))]
            ok = got == want
        except Exception as e:
            got, want, ok = f"{type(e).__name__}: {e}", None, False
        if ok:
            ctx.acc.held(cells=["relative-I-missing-in-build-dir"], cls="grid", nontrivial=entry)
        else:
            ctx.acc.violated({"input": {"entries": [entry]}, "witness": {"entries": [entry], "problems": [
                {"kind": "relative -I must be interpreted in the entry's directory even if it does not exist there",
                 "expected": want, "observed": got}]}}, cells=["relative-I-missing-in-build-dir"], cls="grid")
    if ctx.shard == 0:
        cli_logical_cwd(ctx, base)
    # R: random multi-entry databases
    rng = ctx.rng("random")
    for i in range(bounds(ctx.tier)["random"]):
        es, ms, sk = [], [], []
        n = rng.randint(1, 5)
        for j in range(n):
            if rng.random() < 0.25:
                kind = rng.choice(list(SKIPS))
                es.append(SKIPS[kind](root))
                ms.append(None)
                sk.append((kind, "first" if j == 0 else "last" if j == n - 1 else "middle"))
            else:
                wd_kind = rng.choice(["absent", "root", "build-inside", "build-deep", "build-outside"])
                dstyle = "abs" if wd_kind in ("absent", "build-outside") else rng.choice(["abs", "rel", "dots"])
                e, m = make_entry(root, base, rng.choice(["src/a.c", "src/sub/b.c", "src/c.cpp", "src/d.c", "inc/h.h"]), wd_kind, dstyle,
                                  rng.choice(["abs", "rel", "dots", "via-link"]), rng.choice(["abs", "rel", "dots"]),
                                  defines=rng.choice([[], ["X"], ["X=1", "Y"]]), form=rng.choice(["arguments", "command"]),
                                  pre=rng.choice([None, None, "rel", "abs", "dots"]),
                                  extra=rng.choice([(), (), ("-x", "c"), ("-xc",), ("-x", "c-header"), ("-O2", "-o", "out.o"), ("-MM",), ("-M", "-MF", "deps.d"),
                                                    ("-MD", "-MP", "-MT", "tgt.o")]))
                es.append(e)
                ms.append(m)
        if ctx.mine(i):
            check_db(ctx, base, root, es, ms, sk, "random")
    shutil.rmtree(base, ignore_errors=True)


def replay(record, ctx):
    return {"verdict": "unknown", "note": "re-run ./check C13; the witness lists the database entries"}
