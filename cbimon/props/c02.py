"""
C02 -- #if expressions are evaluated with C integer-constant-expression
semantics; an #elif after a taken branch is not evaluated.

Monitored execution: the exact pipeline IfNode.evaluate_for_platform runs
(Lexer -> MacroExpander -> ExpressionEvaluator) on a recording Platform, for
every expression of the enumerated corpus and for random trees; a sub-sample
and the whole #elif class go through files and finder.find().
Oracles: gcc -E (batched) and the reference evaluator cexpr; they must agree
with each other (else ORACLE-DISAGREEMENT, inconclusive), CBI must agree with
them.
"""

import itertools
import os
import re
import warnings

from cbimon import cbi, hooks
from cbimon.gen import cprog
from cbimon.oracles import cexpr, gcc

PROP = "C02"
RULE = ("case = (expression text, object-like macro table). E1: all `a op b`, `op a` over 24 boundary literals x 19 "
        "binary / 4 unary operators; E2: every ordered pair of binary operators in 3 groupings x 3 value triples, ?: "
        "and unary against every binary; E3: every literal base x suffix spelling x magnitude and character-constant "
        "form; E4: defined/identifier forms; R: random trees depth<=6 with macro bodies; each base expression is "
        "observed through probes E, (E)==K, (E)*0-1<0 (value and signedness). H: #elif after a taken branch via "
        "finder.find. Excluded: gcc diagnoses it, or cexpr says an evaluated operand is undefined in C. "
        "Non-trivial: contains >=1 operator; distinct by (text, macros).")
ASSUMPTIONS = [
    "gcc 12.2 preprocessor arithmetic (intmax_t = 64 bit) and the cexpr reference model agree on every compared case",
    "character constants with value >= 0x80 and multi-character constants are outside the premise",
    "shift counts <0 or >=64, left shift of a negative value, INT64_MIN/-1 are undefined and excluded via cexpr",
]
REQUIRED_HOOKS = ["H-cbi-eval", "H-gcc-batch"]

BINOPS = ["*", "/", "%", "+", "-", "<<", ">>", "<", "<=", ">", ">=", "==", "!=", "&", "^", "|", "&&", "||"]
ALLBIN = BINOPS + ["?:"]
UNOPS = ["+", "-", "!", "~"]
LITS = ["0", "1", "2", "3", "7", "8", "63", "64", "-1", "-2", "-7", "9223372036854775807",
        "(-9223372036854775807-1)", "0x7fffffffffffffff", "1u", "0u", "18446744073709551615u", "010", "0x10",
        "0b10", "'a'", "'\\n'", "'\\0'", "0xffffffffffffffff"]


def bounds(tier):
    q = tier == "quick"
    return {"E1_literals": len(LITS), "random": 20000 if q else 400000, "random_depth": 6,
            "depth3_small": not q, "file_path_sample": 0.05, "batch": 800}


def exhaustive(tier):
    return True


def required_cells(tier):
    cells = [f"root:{op}" for op in ALLBIN] + [f"root:un{op}" for op in UNOPS]
    cells += ["negative-division", "relational-result-in-arithmetic", "mixed-signed-unsigned", "lazy-undefined-operand",
              "lit:dec", "lit:oct", "lit:hex", "lit:bin", "lit:suffix-u", "lit:suffix-l", "lit:suffix-ul", "lit:suffix-ll",
              "lit:suffix-ull", "chr:plain", "chr:simple-escape", "chr:octal-escape", "chr:hex-escape",
              "defined:paren", "defined:bare", "identifier-as-zero", "macro-body-unparenthesised",
              "elif-after-taken/live-parent", "elif-after-taken/dead-parent", "via-file", "oppair:all",
              "multi-line-comment-inside-condition", "self-referential-macro-as-argument", "macro-uses-in-one-expression>=200"]
    return cells


# ------------------------------------------------------------- CBI driver --
class CbiEval:
    def __init__(self):
        from codebasin import platform as cplat
        from codebasin import preprocessor as pp
        self.pp = pp
        self.cplat = cplat
        self.calls = 0
        self.np_warnings = 0

    def __call__(self, expr, macros):
        """Returns ("ok", bool) or ("exc", 'Type: msg')."""
        pp = self.pp
        self.calls += 1
        try:
            with warnings.catch_warnings(record=True) as w:
                warnings.simplefilter("always")
                plat = self.cplat.Platform("p", "/")
                for k, v in (macros or {}).items():
                    node = pp.DirectiveParser(pp.Lexer(f"#define {k} {v}".rstrip()).tokenize()).parse()
                    node.evaluate_for_platform(platform=plat)
                node = pp.DirectiveParser(pp.Lexer("#if " + expr).tokenize()).parse()
                r = node.evaluate_for_platform(platform=plat)
                self.np_warnings += sum(1 for x in w if issubclass(x.category, RuntimeWarning))
                return ("ok", bool(r))
        except Exception as e:
            return ("exc", f"{type(e).__name__}: {e}"[:160])


# ------------------------------------------------------------- generators --
def probes(expr, macros):
    """Base expression plus value/signedness probes (needs a defined value)."""
    out = [expr]
    try:
        v, u = cexpr.evaluate(expr, macros)
    except Exception:
        return out
    out.append(f"({expr}) == {cexpr.literal(v, u)}")
    out.append(f"({expr}) * 0 - 1 < 0")
    return out


def gen_e1():
    for a, b in itertools.product(LITS, LITS):
        for op in BINOPS:
            yield f"{a} {op} {b}", {}, "E1"
    for a in LITS:
        for op in UNOPS:
            yield f"{op}{a}" if not a.startswith("-") else f"{op}({a})", {}, "E1"
        for b in ("1", "0u", "-1"):
            yield f"{a} ? {b} : 2", {}, "E1"
            yield f"1 ? {a} : {b}", {}, "E1"
            yield f"0 ? {b} : {a}", {}, "E1"


TRIPLES = [("7", "2", "3"), ("1", "0", "2"), ("-5", "3", "2")]


def gen_e2():
    for op1, op2 in itertools.product(BINOPS, BINOPS):
        for a, b, c in TRIPLES:
            yield f"{a} {op1} {b} {op2} {c}", {}, "E2"
            yield f"({a} {op1} {b}) {op2} {c}", {}, "E2"
            yield f"{a} {op1} ({b} {op2} {c})", {}, "E2"
    for op in BINOPS:
        for a, b, c in TRIPLES:
            yield f"{a} {op} {b} ? {c} : 4", {}, "E2"
            yield f"{a} ? {b} {op} {c} : 4", {}, "E2"
            yield f"{a} ? 4 : {b} {op} {c}", {}, "E2"
            yield f"0 ? 4 : {b} {op} {c}", {}, "E2"
            yield f"{a} ? {b} : {c} ? 5 : 6", {}, "E2"
            for un in UNOPS:
                yield f"{un}{a.lstrip('-')} {op} {b}", {}, "E2"
                yield f"{a} {op} {un}{b}", {}, "E2"
                yield f"{un}({a} {op} {b})", {}, "E2"
    yield "1 ? 2 : 3 ? 4 : 5", {}, "E2"
    yield "0 ? 2 : 0 ? 4 : 5", {}, "E2"
    yield "1 ? 0 ? 7 : 8 : 9", {}, "E2"
    yield "- - 1 == 1", {}, "E2"
    yield "!!5 == 1", {}, "E2"
    yield "~~5 == 5", {}, "E2"
    yield "-!0 == -1", {}, "E2"
    yield "!-1 == 0", {}, "E2"
    yield "~0 == -1", {}, "E2"
    yield "~0u == 18446744073709551615u", {}, "E2"


SUFFIXES = ["", "u", "U", "l", "L", "ul", "uL", "Ul", "UL", "lu", "lU", "Lu", "LU", "ll", "LL", "ull", "uLL", "Ull",
            "ULL", "llu", "llU", "LLu", "LLU"]
MAGS = [0, 1, 7, 8, 9, 255, 2 ** 31, 2 ** 32, 2 ** 63 - 1, 2 ** 63, 2 ** 64 - 1]


def spell(v, base):
    if base == "dec":
        return str(v)
    if base == "oct":
        return "0" + oct(v)[2:] if v else "00"
    if base == "hex":
        return hex(v)
    if base == "HEX":
        return "0X" + hex(v)[2:].upper()
    return bin(v)


def gen_e3():
    for base in ("dec", "oct", "hex", "HEX", "bin"):
        for suf in SUFFIXES:
            for v in MAGS:
                lit = spell(v, base) + suf
                yield lit, {}, "E3"
                yield f"{lit} == {v}" + ("u" if v > 2 ** 63 - 1 else ""), {}, "E3"
                yield f"{lit} * 0 - 1 < 0", {}, "E3"
                yield f"{lit} + 1 > {lit}", {}, "E3"
    chars = [chr(c) for c in range(32, 127) if chr(c) not in "'\\"]
    for ch in chars:
        yield f"'{ch}' == {ord(ch)}", {}, "E3"
    for e, v in cexpr.SIMPLE_ESC.items():
        yield f"'\\{e}' == {v}", {}, "E3"
        yield f"'\\{e}' + 1 == {v + 1}", {}, "E3"
    for o in ("0", "7", "12", "101", "177", "00", "007"):
        yield f"'\\{o}' == {int(o, 8)}", {}, "E3"
    for h in ("0", "41", "7f", "7F", "a", "0a", "041", "00a", "001", "0000041", "07f", "000", "1", "F", "00000000000000000007"):
        yield f"'\\x{h}' == {int(h, 16)}", {}, "E3"
    # (an escape takes ALL following hexadecimal / up to three octal digits)
    yield "'\\x041' == 'A'", {}, "E3"
    yield "'\\x00a' == '\\n'", {}, "E3"
    yield "'\\x07f' < 100", {}, "E3"
    yield "'\\x001'", {}, "E3"
    yield "'\\0101' != 65", {}, "E3"          # three octal digits, then the character 1: a multi-character constant
    yield "'a' < 'b'", {}, "E3"
    yield "'a' + 1 == 'b'", {}, "E3"
    yield "'0' - 48 == 0", {}, "E3"
    yield "' ' == 32", {}, "E3"
    yield "'\\'' == 39", {}, "E3"
    yield "'\"' == 34", {}, "E3"
    yield "'\\\"' == 34", {}, "E3"
    yield "'\\\\' == 92", {}, "E3"


def gen_e4():
    env = {"DEF": "1", "EMPTY": "", "ZERO": "0", "CHAIN": "DEF", "TWO": "2", "TOUNDEF": "NOTDEF", "EXPR": "1 + 1",
           "NEG": "-1", "SELF": "SELF", "MUT1": "MUT2", "MUT2": "MUT1", "PAREN": "(2 + 1)",
           # function-like macros: their bare names (no parenthesis follows) stay identifiers
           "FL(x)": "1", "FL2(a, b)": "2", "FL0()": "(1)",
           "Z\u00c4HLER": "3", "gr\u00f6\u00dfe": "TWO"}
    names = ["DEF", "EMPTY", "ZERO", "UNDEF", "CHAIN", "SELF"]
    for n in names:
        for form in ("defined {}", "defined({})", "defined ( {} )", "defined\t{}", "!defined {}", "!defined({})",
                     "defined {} && 1", "defined({}) || 0", "defined {} == 1", "defined({}) + 1 == 2",
                     "(defined {})", "defined({})==defined {}"):
            yield form.replace("{}", n), env, "E4"
    for ident in ("UNDEF", "true", "false", "int", "sizeof", "if", "__cplusplus", "x_1", "_", "NOTDEF", "TOUNDEF", "SELF",
                  "MUT1", "CHAIN", "ZERO", "TWO", "EXPR", "NEG", "PAREN",
                  # words that are operators or keywords elsewhere (C++ alternative tokens, <iso646.h> names, keywords)
                  # but plain identifiers in a C #if
                  "and", "or", "not", "xor", "compl", "bitand", "bitor", "not_eq", "and_eq", "or_eq", "xor_eq",
                  "new", "class", "typeof", "elif", "else", "endif", "include", "define", "pragma", "L", "u8", "U",
                  "definedX", "defined_", "__COUNTER", "NULL", "nullptr",
                  "FL", "FL2", "FL0",                                                  # un-invoked function-like macros
                  "Z\u00c4HLER", "gr\u00f6\u00dfe", "\u00c9T\u00c9", "\u03c0", "d\u00e9fini"):     # letters outside ASCII
        for form in ("{}", "{} == 0", "{} + 1 == 1", "!{}", "{} || 1", "{} && 1", "({})", "-{} == 0", "{} * 2 == 4",
                     "{} * 3 == 3", "2 * {} == 3", "2 * {} == 4"):
            yield form.replace("{}", ident), env, "E4"
    yield "defined DEF && defined ZERO && !defined UNDEF", env, "E4"
    yield "defined(DEF) + defined(ZERO) + defined(EMPTY) == 3", env, "E4"
    yield "TWO * TWO == 4", env, "E4"
    yield "EXPR * 2 == 3", env, "E4"       # unparenthesised body: 1 + 1 * 2
    yield "PAREN * 2 == 6", env, "E4"
    yield "NEG - NEG == 0", env, "E4"
    yield "2 NEG == 1", env, "E4"          # 2 -1
    yield "FL + FL2 + FL0 == 0", env, "E4"
    # macros whose names are words of the implementation language
    env2 = dict(env, **{"None": "1", "True": "2", "False": "0", "self": "3", "print": "4", "__init__": "5", "lambda": "6"})
    for e_ in ("None", "None == 1", "None + True == 3", "defined(None) && None", "self * print == 12", "!False && __init__ == 5", "lambda - None == 5",
               "None None 0" if False else "(None)", "-None == -1"):
        yield e_, env2, "E4"
    # literals padded with zeros beyond the width of the widest type
    for e_ in ("0x00000000000000001 == 1", "0x000000000000000000000000ff == 255", "000000000000000000000000017 == 15", "0b" + "0" * 70 + "101 == 5",
               "00000000000000000000000000000000 == 0", "0x0000000000000000ffffffffffffffffu == 18446744073709551615u", "0000000000000000000000001u + 1 == 2"):
        yield e_, env, "E4"
    # character constants that spell an operator are operands
    for e_ in ("'-' - 1 == 44", "'+' + 1 == 44", "'!' + 1 == 34", "'~' - 1 == 125", "'-' - '+' == 2", "- '-' == -45", "'*' * 2 == 84", "'(' + ')' == 81",
               "'<' < '>'", "'?' ? 1 : 0", "('&' & 1) == 0", "('|' | 1) == 125", "!'!' == 0", "~'~' == -127", "'/' / 2 == 23", "'%' % 10 == 7", "'=' == 61",
               "'^' ^ 1", "',' == 44", "':' ? ':' : 0", "1 ? '-' - 1 : 0"):
        yield e_, env, "E4"
    # a macro defined with an empty replacement list expands to nothing (it is not 1, and not 0 either)
    for e_ in ("EMPTY + 1 == 1", "EMPTY - 1 < 0", "! EMPTY 0", "(EMPTY 1)", "EMPTY EMPTY 2 == 2", "1 EMPTY + EMPTY 1 == 2", "EMPTY + 0",
               "-EMPTY 1 == -1", "EMPTY defined(EMPTY)", "2 * EMPTY 3 == 6"):
        yield e_, env, "E4"       # (invocations are C03's subject; cexpr models object-like macros only)
    # one expression with hundreds of macro uses at nesting depth 1 (a generated flag mask, a sum of sizes): the
    # expander's nesting limit (200) is about depth, not about the number of replacements in a directive
    wide = dict(env, ONE="1", **{f"F{i}": str(1 << (i % 60)) for i in range(260)})
    for n in (150, 199, 200, 201, 260):
        yield " + ".join(["ONE"] * n) + f" == {n}", wide, "E4"
        yield "(" + " | ".join(f"F{i}" for i in range(n)) + ") != 0", wide, "E4"
        yield " + ".join(["CHAIN"] * n) + f" == {n}", wide, "E4"          # two replacements per use
    yield " && ".join(f"defined(F{i})" for i in range(260)), wide, "E4"
    yield "Z\u00c4HLER * 2 == 6 && gr\u00f6\u00dfe == 2", env, "E4"
    yield "!defined(\u00c9T\u00c9) && d\u00e9fini + 1 == 1", env, "E4"
    yield "defined(Z\u00c4HLER) && defined gr\u00f6\u00dfe", env, "E4"


def rand_tree(rng, depth, leaves):
    if depth <= 0 or rng.random() < 0.25:
        return rng.choice(leaves)
    x = rng.random()
    if x < 0.62:
        op = rng.choice(BINOPS)
        a, b = rand_tree(rng, depth - 1, leaves), rand_tree(rng, depth - 1, leaves)
        s = f"{a} {op} {b}"
        return f"({s})" if rng.random() < 0.6 else s
    if x < 0.78:
        op = rng.choice(UNOPS)
        a = rand_tree(rng, depth - 1, leaves)
        return f"{op}({a})" if rng.random() < 0.7 or a[:1] in "-+" else f"{op}{a}"
    if x < 0.9:
        c, a, b = (rand_tree(rng, depth - 1, leaves) for _ in range(3))
        s = f"{c} ? {a} : {b}"
        return f"({s})" if rng.random() < 0.7 else s
    return f"({rand_tree(rng, depth - 1, leaves)})"


RLEAVES = ["0", "1", "2", "3", "5", "7", "8", "63", "64", "100", "1u", "0u", "2u", "7u", "18446744073709551615u", "010", "017",
           "0x10", "0xff", "0b101", "'a'", "'0'", "'\\n'", "9223372036854775807", "0x7fffffffffffffff", "1L", "2UL", "3ll",
           "4LLU", "5lu", "X", "Y", "Z", "U1", "defined X", "defined(Y)", "defined ( U1 )", "UNKNOWN", "true",
           "and", "or", "not", "xor", "compl", "bitand", "bitor", "not_eq", "false"]


def gen_random(rng, n):
    for _ in range(n):
        depth = rng.choice([1, 2, 2, 3, 3, 4, 5, 6])
        macros = {}
        if rng.random() < 0.7:
            for nm in ("X", "Y", "Z"):
                if rng.random() < 0.7:
                    body = rand_tree(rng, rng.choice([0, 0, 1, 2]), RLEAVES[:28])
                    macros[nm] = body
        yield rand_tree(rng, depth, RLEAVES), macros, "R"


def gen_depth3_small():
    """All trees of depth <=2 over binary operators on a 5-literal set (thorough)."""
    small = ["0", "1", "-3", "2u", "7"]
    d1 = [f"{a} {op} {b}" for a in small for b in small for op in BINOPS]
    for s in small:
        for t in d1[:: 7]:
            for op in BINOPS:
                yield f"({t}) {op} {s}", {}, "D3"
                yield f"{s} {op} ({t})", {}, "D3"


def all_base_cases(ctx):
    b = bounds(ctx.tier)
    for g in (gen_e1(), gen_e2(), gen_e3(), gen_e4()):
        yield from g
    if b["depth3_small"]:
        yield from gen_depth3_small()
    yield from gen_random(ctx.rng("random"), b["random"])


# ------------------------------------------------------------ shrink/class --
def unparse(n):
    t = n[0]
    if t in ("num", "chr", "id"):
        return n[1]
    if t == "par":
        return "(" + unparse(n[1]) + ")"
    if t == "un":
        return n[1] + " " + unparse(n[2]) if n[2][0] == "un" or (n[2][0] == "num" and False) else n[1] + unparse(n[2])
    if t == "bin":
        return unparse(n[2]) + " " + n[1] + " " + unparse(n[3])
    if t == "cond":
        return unparse(n[1]) + " ? " + unparse(n[2]) + " : " + unparse(n[3])
    raise ValueError(n)


def subtrees(n, path=()):
    yield path, n
    t = n[0]
    if t == "par":
        yield from subtrees(n[1], path + (1,))
    elif t == "un":
        yield from subtrees(n[2], path + (2,))
    elif t == "bin":
        yield from subtrees(n[2], path + (2,))
        yield from subtrees(n[3], path + (3,))
    elif t == "cond":
        for i in (1, 2, 3):
            yield from subtrees(n[i], path + (i,))


def replace_at(n, path, new):
    if not path:
        return new
    lst = list(n)
    lst[path[0]] = replace_at(n[path[0]], path[1:], new)
    return tuple(lst)


def atom(n):
    return n if n[0] in ("num", "chr", "id", "par") else ("par", n)


def violates(text, cbi_eval, signature=None):
    """True if cexpr defines the value and CBI's observable result differs (optionally: in the same way)."""
    try:
        t = cexpr.truth(text, {})
    except Exception:
        return False
    st, val = cbi_eval(text, {})
    if not (st == "exc" or val != t):
        return False
    return signature is None or failure_signature(st, val) == signature


def failure_signature(st, val):
    return ("exception", str(val).split(":")[0]) if st == "exc" else ("wrong-truth",)


def shrink(expr, macros, cbi_eval, budget=250):
    """Greedy reduction of a violating expression (macros inlined first)."""
    try:
        sig = failure_signature(*cbi_eval(expr, macros))
        toks = cexpr.expand(expr, macros or {})
        text = " ".join(s for _, s in toks)
        if not violates(text, cbi_eval, sig):
            return expr, macros
        ast = cexpr.Parser(cexpr.tokenize(text)).parse()
    except Exception:
        return expr, macros

    changed = True
    while changed and budget > 0:
        changed = False
        for path, node in list(subtrees(ast)):
            cands = []
            t = node[0]
            if t == "par":
                cands.append(node[1])
            elif t == "un":
                cands.append(atom(node[2]))
            elif t == "bin":
                cands += [atom(node[2]), atom(node[3])]
            elif t == "cond":
                cands += [atom(node[1]), atom(node[2]), atom(node[3])]
            if t != "num" or node[1] not in ("0", "1", "2"):
                cands += [("num", "1"), ("num", "2"), ("num", "0")]
            if t == "num":
                m = cexpr.NUM.match(node[1])
                if m:
                    d, suf = m.groups()
                    try:
                        v, u = cexpr.number_value(node[1])
                        cands.append(("num!", str(v) + suf))          # same value, decimal spelling
                        cands.append(("num!", hex(v) + suf))          # same value, hex spelling
                        cands.append(("num!", d))                     # suffix dropped
                        if u:
                            cands.append(("num!", str(v) + "u"))      # canonical unsigned
                        cands.append(("num!", "1" + suf))
                    except Exception:
                        pass
            if t == "chr" and len(node[1]) > 3:
                try:
                    cands.append(("num!", str(cexpr.char_value(node[1])[0])))
                except Exception:
                    pass
            for c in cands:
                same_len_ok = False
                if c[0] == "num!":
                    c = ("num", c[1])
                    same_len_ok = True
                if c == node:
                    continue
                new = replace_at(ast, path, c)
                try:
                    txt = unparse(new)
                    simpler = len(txt) < len(unparse(ast)) or (
                        same_len_ok and len(features(txt)) < len(features(unparse(ast))))
                except Exception:
                    continue
                budget -= 1
                if simpler and violates(txt, cbi_eval, sig):
                    ast = new
                    changed = True
                    break
                if budget <= 0:
                    break
            if changed or budget <= 0:
                break
    # strip redundant outer parens
    while ast[0] == "par" and violates(unparse(ast[1]), cbi_eval, sig):
        ast = ast[1]
    return unparse(ast), {}


CBI_SUFFIXES = {"", "ull", "ULL", "ul", "UL", "ll", "LL", "u", "U", "l", "L"}
BOOLOPS = {"<", "<=", ">", ">=", "==", "!="}
LOGOPS = {"&&", "||"}


def features(text):
    """Feature set of a (shrunk) expression, from the reference parse."""
    f = set()
    try:
        ast = cexpr.Parser(cexpr.tokenize(text)).parse()
    except Exception:
        return {"unparsable"}

    def val(n):
        try:
            return cexpr.ev(n)
        except Exception:
            return None

    def strip(n):
        while n[0] == "par":
            n = n[1]
        return n

    def walk(n, parent=None):
        t = n[0]
        if t == "num":
            m = cexpr.NUM.match(n[1])
            if m:
                digits, suf = m.groups()
                if suf not in CBI_SUFFIXES:
                    f.add("suffix-spelling")
                if len(digits) > 1 and digits[0] == "0" and digits[1] not in "xXbB":
                    f.add("octal-literal")
                try:
                    v, u = cexpr.number_value(n[1])
                    if u and "u" not in suf.lower():
                        f.add("unsuffixed-above-int64-max")
                except Exception:
                    pass
        elif t == "chr":
            if "\\" in n[1]:
                f.add("escaped-char")
        elif t == "par":
            walk(n[1], parent)
        elif t == "un":
            inner = strip(n[2])
            if n[1] in ("-", "~", "+") and (inner[0] == "bin" and inner[1] in BOOLOPS | LOGOPS or inner[0] == "un" and inner[1] == "!"):
                f.add("bool-operand-arith")
            v = val(n[2])
            if v and v[1] and n[1] == "-":
                f.add("unsigned-negate")
            walk(n[2], n)
        elif t == "bin":
            op = n[1]
            a, b = strip(n[2]), strip(n[3])
            va, vb = val(n[2]), val(n[3])
            for side in (a, b):
                if side[0] == "bin" and side[1] in LOGOPS and op not in LOGOPS:
                    f.add("logical-result-used-as-value")
                if op not in LOGOPS and (side[0] == "bin" and side[1] in BOOLOPS or side[0] == "un" and side[1] == "!"):
                    if op in BOOLOPS:
                        f.add("bool-operand-compare")
                    else:
                        f.add("bool-operand-arith")
            if va and vb:
                if va[1] != vb[1] and op not in ("<<", ">>", "&&", "||"):
                    f.add("mixed-signed-unsigned")
                if op in ("/", "%") and not (va[1] or vb[1]) and vb[0] != 0 and (va[0] < 0) != (vb[0] < 0) and va[0] % vb[0] != 0:
                    f.add("negative-division")
                if op in ("/", "%") and not (va[1] or vb[1]) and (va[0] < 0 or vb[0] < 0):
                    f.add("negative-division-operand")
                if op in ("<<", ">>") and va[1] != vb[1]:
                    f.add("shift-mixed-signedness")
            walk(n[2], n)
            walk(n[3], n)
        elif t == "cond":
            va, vb = val(n[2]), val(n[3])
            if va and vb and va[1] != vb[1]:
                f.add("mixed-signed-unsigned-conditional")
            for i in (1, 2, 3):
                walk(n[i], n)
            a, b = strip(n[2]), strip(n[3])
            for side in (a, b):
                if side[0] == "bin" and side[1] in BOOLOPS | LOGOPS:
                    f.add("bool-arm-in-conditional")

    walk(ast)
    return f


def classify(min_text, observed):
    """Mechanism of a violation from the features of its shrunk witness.  A mechanism is returned only when
    the shrunk witness exhibits exactly one of the known defect features."""
    fs = features(min_text)
    order = ["unsuffixed-above-int64-max", "escaped-char", "octal-literal", "suffix-spelling", "negative-division",
             "mixed-signed-unsigned", "mixed-signed-unsigned-conditional", "shift-mixed-signedness", "bool-operand-arith",
             "logical-result-used-as-value"]
    hits = [x for x in order if x in fs]
    if hits:
        # several defect features may survive shrinking when one is incidental (e.g. an octal literal whose
        # misreading only shows through a mixed-sign division); the first in priority order names the mechanism
        return hits[0], sorted(fs)
    return None, sorted(fs)


# ------------------------------------------------------------------- run --
def cells_for(expr, macros, val):
    cells = set()
    if macros and sum(len(re.findall(r"\b%s\b" % re.escape(k), expr)) for k in ("ONE", "CHAIN")) + len(re.findall(r"\bF\d+\b", expr)) >= 200:
        cells.add("macro-uses-in-one-expression>=200")
    try:
        ast = cexpr.parse_text(expr, macros)
    except Exception:
        return cells
    n = ast
    while n[0] == "par":
        n = n[1]
    if n[0] == "bin":
        cells.add("root:" + n[1])
    elif n[0] == "cond":
        cells.add("root:?:")
    elif n[0] == "un":
        cells.add("root:un" + n[1])
    fs = features(" ".join(s for _, s in cexpr.expand(expr, macros or {})))
    if "negative-division" in fs:
        cells.add("negative-division")
    if "bool-operand-arith" in fs:
        cells.add("relational-result-in-arithmetic")
    if "mixed-signed-unsigned" in fs:
        cells.add("mixed-signed-unsigned")
    for path, sub in subtrees(ast):
        if sub[0] == "num":
            m = cexpr.NUM.match(sub[1])
            if m:
                d, s = m.groups()
                base = "hex" if d[:2] in ("0x", "0X") else "bin" if d[:2] in ("0b", "0B") else \
                    "oct" if len(d) > 1 and d[0] == "0" else "dec"
                cells.add("lit:" + base)
                if s:
                    cells.add("lit:suffix-" + "".join(sorted(s.lower(), key="ul".index)) if set(s.lower()) <= set("ul") else "lit:suffix-other")
        elif sub[0] == "chr":
            body = sub[1][1:-1]
            if body[0] != "\\":
                cells.add("chr:plain")
            elif body[1] == "x":
                cells.add("chr:hex-escape")
            elif body[1] in "01234567" and body != "\\0":
                cells.add("chr:octal-escape")
            else:
                cells.add("chr:simple-escape")
        elif sub[0] == "id":
            cells.add("identifier-as-zero")
    if "defined(" in expr.replace(" ", "") :
        cells.add("defined:paren")
    import re as _re
    if _re.search(r"defined\s+[A-Za-z_]", expr):
        cells.add("defined:bare")
    for k, v in (macros or {}).items():
        if v and not v.startswith("(") and any(o in v for o in ("+", "-", "*", "|", "&", "<", ">")) and _re.search(r"\b%s\b" % k, expr):
            cells.add("macro-body-unparenthesised")
    return cells


def has_lazy_undefined(expr, macros):
    """An operand C does not evaluate is undefined (e.g. 0 && 1/0) while the whole is defined."""
    try:
        ast = cexpr.parse_text(expr, macros)
    except Exception:
        return False
    for path, sub in subtrees(ast):
        if sub[0] in ("bin", "un", "cond"):
            try:
                cexpr.ev(sub)
            except cexpr.Undefined:
                return True
            except Exception:
                pass
    return False


def process_batch(ctx, batch, cbi_eval, work):
    acc = ctx.acc
    g = gcc.eval_exprs([(e, m) for e, m, _ in batch], work)
    acc.hook("H-gcc-batch")
    held_for_file = []
    for (expr, macros, cls), (gt, gdiag) in zip(batch, g):
        try:
            cv = cexpr.evaluate(expr, macros)
            cstate = "ok"
        except cexpr.Undefined as e:
            cv, cstate = None, "undefined"
        except cexpr.Malformed as e:
            cv, cstate = None, "malformed"
        except RecursionError:
            cv, cstate = None, "malformed"
        if gt is None or cstate != "ok":
            if gt is not None and cstate == "malformed":
                # gcc accepts silently, reference model rejects: the model is incomplete here
                acc.oracle_disagreement({"expr": expr, "macros": macros, "gcc": gt, "cexpr": "malformed"})
            else:
                acc.excluded("gcc-diagnostic" if gt is None else "undefined-in-C", cls=cls)
            continue
        ctruth = cv[0] != 0
        if ctruth != gt:
            if has_lazy_undefined(expr, macros):
                # gcc types an undefined operation in an unevaluated operand after its left operand (9/0u is
                # signed for gcc, unsigned in ISO C); the result type then differs between the two oracles.
                acc.excluded("oracles-differ-on-type-of-undefined-unevaluated-operand", cls=cls)
            else:
                acc.oracle_disagreement({"expr": expr, "macros": macros, "gcc": gt, "cexpr": cv})
            continue
        st, val = cbi_eval(expr, macros)
        acc.hook("H-cbi-eval")
        cells = cells_for(expr, macros, cv)
        if has_lazy_undefined(expr, macros):
            cells.add("lazy-undefined-operand")
        nontrivial = (expr, sorted((macros or {}).items())) if any(c.startswith("root:") for c in cells) else None
        if st == "ok" and val == gt:
            acc.held(cells=cells, nontrivial=nontrivial, cls=cls,
                     sample={"expr": expr, "macros": macros, "value": cv[0], "unsigned": cv[1], "cbi": val})
            held_for_file.append((expr, macros, gt))
            continue
        mtext, _ = shrink(expr, macros, cbi_eval)
        mst, mval = cbi_eval(mtext, {})
        mech, fs = classify(mtext, mst)
        acc.violated({"input": {"expr": expr, "macros": macros},
                      "witness": {"shrunk": mtext, "shrunk_observed": [mst, mval],
                                  "shrunk_expected": str(cexpr.evaluate(mtext, {})) if violates(mtext, cbi_eval) else None,
                                  "features": fs, "expr": expr, "macros": macros, "expected_truth": gt,
                                  "expected_value": list(cv), "observed": [st, val]}},
                     mechanism=mech, cells=cells, nontrivial=nontrivial, cls=cls)
    return held_for_file


def file_path_check(ctx, cases, work, tag):
    """Run expressions through a real file + finder.find; expected per-line attribution from gcc."""
    acc = ctx.acc
    if not cases:
        return
    lines = []
    sites = []
    for i, (expr, macros, gt) in enumerate(cases):
        for k, v in (macros or {}).items():
            lines.append(f"#define {k} {v}".rstrip())
        # every third condition carries a block comment that spans two physical lines, the first of which ends in '*';
        # the comment is one space: before the expression or in the middle of it (before a binary operator)
        cut = next((expr.index(op) for op in (" && ", " || ", " + ", " == ", " < ") if op in expr and "'" not in expr and '"' not in expr), None)
        if i % 3 == 1 and cut is not None:
            lines.append(f"#if {expr[:cut]} /* both must hold: *")
            lines.append(f" * this and that */{expr[cut:]}")
            acc.cells["multi-line-comment-inside-condition"] += 1
        elif i % 3 == 2:
            lines.append("#if /* see below *")
            lines.append(f"    ***/ {expr}")
            acc.cells["multi-line-comment-inside-condition"] += 1
        else:
            lines.append(f"#if {expr}")
        lines.append(f"cbi_m_t{i};")
        t_line = len(lines)
        lines.append("#else")
        lines.append(f"cbi_m_f{i};")
        f_line = len(lines)
        lines.append("#endif")
        for k in (macros or {}):
            lines.append("#undef " + k.split("(")[0])
        sites.append((t_line, f_line))
    d = os.path.join(work, "file-" + tag)
    os.makedirs(d, exist_ok=True)
    path = os.path.join(d, "main.c")
    with open(path, "w") as f:
        f.write("\n".join(lines) + "\n")
    g = gcc.preprocess(path)
    live = set(g["markers"])
    try:
        state, _ = cbi.run_find(d, {"p": [cbi.entry(path)]})
        used = cbi.used_lines(state, path, "p")
    except Exception as e:
        acc.violated({"input": {"file_cases": [c[0] for c in cases][:50]},
                      "witness": {"kind": "exception-through-file", "observed": f"{type(e).__name__}: {e}"}},
                     cells=["via-file"], cls="file")
        return
    for i, ((expr, macros, gt), (tl, fl)) in enumerate(zip(cases, sites)):
        exp_t = f"cbi_m_t{i}" in live
        obs_t, obs_f = tl in used, fl in used
        if (obs_t, obs_f) == (exp_t, not exp_t):
            acc.held(cells=["via-file"], cls="file")
        else:
            acc.violated({"input": {"expr": expr, "macros": macros, "via": "file"},
                          "witness": {"expr": expr, "macros": macros, "expected_true_branch": exp_t,
                                      "observed_true_branch": obs_t, "observed_else_branch": obs_f}},
                         cells=["via-file"], cls="file")


PAINTED_ENV = {"ID(x)": "x", "ID2(x)": "ID(x)", "COUNT": "COUNT + 1", "LEVEL": "LEVEL", "MAXI(a, b)": "((a) > (b) ? (a) : (b))",
               "MUT1": "MUT2 + 1", "MUT2": "MUT1 + 2", "TWICE(x)": "x + x", "APPLY(f, x)": "f(x)", "STEP": "STEP * 2 + 3"}
PAINTED = ["ID(COUNT) == 1", "ID(ID(COUNT)) == 1", "ID2(COUNT) == 1", "ID(COUNT) + COUNT == 2", "MAXI(COUNT, 0) == 1", "MAXI(LEVEL, 1) == 1",
           "MAXI(LEVEL, 1) == 2", "ID(LEVEL) == 0", "ID(MUT1) == 3", "ID(MUT2) == 3", "TWICE(COUNT) == 2", "TWICE(STEP) == 6", "ID(STEP) == 3",
           "APPLY(ID, COUNT) == 1", "ID(COUNT) == 2", "ID(COUNT + COUNT) == 2", "(ID(COUNT)) * 2 == 2", "ID(STEP) * 2 == 6", "!ID(LEVEL)",
           "ID(defined(COUNT)) == 1", "ID(COUNT) == COUNT", "MAXI(ID(COUNT), ID(STEP)) == 3"]


def painted_identifier_class(ctx, work, cbi_eval):
    """A macro name that was NOT replaced because it occurred inside its own expansion stays unreplaced for good
    (ISO C 6.10.3.4p2), also when the tokens are examined again as the argument of a function-like macro; what is
    left counts as 0.  Oracle: gcc alone (the reference evaluator models object-like macros only)."""
    acc = ctx.acc
    g = gcc.eval_exprs([(e, PAINTED_ENV) for e in PAINTED], work, name="painted.c")
    acc.hook("H-gcc-batch")
    for k, (expr, (gt, gdiag)) in enumerate(zip(PAINTED, g)):
        if not ctx.mine(k):
            continue
        if gt is None:
            acc.excluded("gcc-diagnostic", cls="painted")
            continue
        st, val = cbi_eval(expr, PAINTED_ENV)
        acc.hook("H-cbi-eval")
        cells = {"self-referential-macro-as-argument"}
        if st == "ok" and val == gt:
            acc.held(cells=cells, nontrivial=(expr, "painted"), cls="painted", sample={"expr": expr, "macros": PAINTED_ENV, "truth": gt})
        else:
            acc.violated({"input": {"expr": expr, "macros": PAINTED_ENV},
                          "witness": {"expr": expr, "macros": PAINTED_ENV, "expected_truth": gt, "observed": [st, val]}},
                         cells=cells, nontrivial=(expr, "painted"), cls="painted")


ELIF_BAD = ["", "(", "1 +", "1/0", "NOFUNC(1)", "EMPTY", "EMPTY == 1", "1 1", ")", "0x", "defined", "'ab'",
            "99999999999999999999999", "1 ? 2", "-7/2 == -3", "010 == 8", "-1 < 0u", "1u << 63", "'\\n' == 10"]


def elif_class(ctx, work):
    """#elif after a taken branch: must not change the result nor fail the analysis."""
    from cbimon.props import c01
    acc = ctx.acc
    i = 0
    for bad in ELIF_BAD:
        for parent in ("live", "dead", "nested-else"):
            for first in ("if", "elif"):
                i += 1
                if not ctx.mine(i):
                    continue
                if first == "if":
                    chain = ["chain", [["if", "1", [["code"]]], ["elif", bad, [["code"]]], ["else", None, [["code"]]]]]
                else:
                    chain = ["chain", [["if", "0", [["code"]]], ["elif", "defined(EMPTY)", [["code"]]],
                                       ["elif", bad, [["code"]]], ["elif", bad, [["code"]]]]]
                if parent == "live":
                    ast = [["code"], chain, ["code"]]
                elif parent == "dead":
                    ast = [["chain", [["if", "0", [["code"], chain]], ["else", None, [["code"]]]]]]
                else:
                    ast = [["chain", [["ifdef", "EMPTY", [["code"], chain, ["code"]]], ["else", None, [chain]]]]]
                r = cprog.render(ast)
                before = sum(acc.verdicts.values()), acc.verdicts["held"]
                res = c01.run_case(ctx, work, r.text, ["EMPTY="], r, "elif", check_table=False, case={"ast": ast})
                if res == "held":
                    acc.cells["elif-after-taken/" + ("dead-parent" if parent == "dead" else "live-parent")] += 1


def run_shard(ctx):
    acc = ctx.acc
    b = bounds(ctx.tier)
    cbi_eval = CbiEval()
    work = ctx.subdir("w")
    batch = []
    idx = 0
    file_rng = ctx.rng(f"file{ctx.shard}")
    held_pool = []
    oppairs = set()
    for expr, macros, cls in all_base_cases(ctx):
        idx += 1
        if not ctx.mine(idx):
            continue
        plist = probes(expr, macros) if cls in ("E1", "E2", "R", "D3", "E4") else [expr]
        if cls == "D3":
            plist = plist[:2]
        for p in plist:
            batch.append((p, macros, cls))
        if len(batch) >= b["batch"]:
            held = process_batch(ctx, batch, cbi_eval, work)
            held_pool.extend(h for h in held if file_rng.random() < b["file_path_sample"])
            batch = []
    if batch:
        held = process_batch(ctx, batch, cbi_eval, work)
        held_pool.extend(h for h in held if file_rng.random() < b["file_path_sample"])
    for k in range(0, len(held_pool), 400):
        file_path_check(ctx, held_pool[k:k + 400], work, f"{k}")
    elif_class(ctx, ctx.subdir("elif"))
    painted_identifier_class(ctx, ctx.subdir("painted"), cbi_eval)
    acc.extra["numpy-runtime-warnings"] += cbi_eval.np_warnings
    if ctx.shard == 0:
        acc.cells["oppair:all"] += len(BINOPS) ** 2


def replay(record, ctx):
    inp = record["input"]
    if "ast" in inp:
        from cbimon.props import c01
        return c01.replay(record, ctx)
    cbi_eval = CbiEval()
    expr, macros = inp["expr"], inp.get("macros") or {}
    g = gcc.eval_exprs([(expr, macros)], ctx.subdir("w"))[0]
    st = cbi_eval(expr, macros)
    try:
        cv = cexpr.evaluate(expr, macros)
    except Exception as e:
        cv = repr(e)
    bad = g[0] is not None and (st[0] == "exc" or st[1] != g[0])
    return {"verdict": "violated" if bad else "held", "gcc": g, "cexpr": cv, "cbi": st}
