"""
C16 -- the duplicates report lists exactly the sets of byte-identical files.

Monitored execution: report.find_duplicates(CodeBase(...)) on generated trees,
twice per case: normally and under H-hash (hashlib.file_digest replaced by a
deliberately weak digest so that the pairwise confirmation loop is what
decides); a sub-sample runs `codebasin -R duplicates` and parses stdout.
Oracle: byte-wise partition of the non-symlink member files.
"""

import filecmp
import hashlib
import os
import shutil

from cbimon import cli

PROP = "C16"
RULE = ("code base = 2..14 (sometimes 22..60) files in <=3 directories whose contents are drawn from a pool of <=6 byte strings (empty, "
        "differing in last byte / length / trailing newline / one byte in the middle of 70 kB), plus excluded twins, "
        "symlinked twins, hard links, non-source twins. Non-trivial: >=1 duplicate class of size >=2 or a "
        "near-duplicate pair; distinct by (file->content id, links, excludes).")
ASSUMPTIONS = ["byte-wise partition computed with open(...,'rb').read() is the oracle",
               "H-hash checks behaviour under digest collisions, not SHA-512 itself",
               "member files = regular non-symlink files with a source extension under the root not matched by the "
               "(literal directory / extension) exclude patterns used by this generator"]
REQUIRED_HOOKS = ["find_duplicates"]

POOL = [b"", b"int a;\n", b"int a;", b"int b;\n", b"int a;\n\n", b"x" * 70000 + b"\n", b"x" * 35000 + b"y" + b"x" * 34999 + b"\n",
        b"int a;\r\n", b"\n", b"int A;\n"]
EXTS = [".c", ".h", ".cpp", ".hpp", ".f90", ".cu", ".inc"]


def bounds(tier):
    return {"cases": 1500 if tier == "quick" else 30000, "cli_cases": 9 if tier == "quick" else 60}


def required_cells(tier):
    return ["class-size>=3", "classes>=2", "weak-digest-collision-different-content", "near-duplicate", "excluded-twin",
            "symlinked-twin", "hard-link", "empty-files", "no-duplicates", "non-source-twin", "cli", "same-size-same-mtime-different-content", "link-enumerated-before-target",
            "class-size>20", "cli:class-size>20", "negation-after-wildcard", "cli:negation-after-wildcard", "two-directory-code-base", "directory-named-through-link",
            "ancestor-directory-named-like-a-pattern", "report-to-stream", "same-object-after-a-file-was-added", "dot-directory",
            "fixed:reinclusion-below-excluded-directory", "fixed:member-below-excluded-directory-has-a-twin", "fixed:file-names-not-valid-utf-8",
            "fixed:hidden-file-named-like-an-extension", "cli:-x-directory-only-pattern-beside-files-of-that-name"]


def gen_case(rng, big=False, force_neg=False):
    """big: 45..70 files with one content (a vendored header copied many times)."""
    ndirs = rng.randint(0, 3)
    dirs = [""] + [f"d{i}" for i in range(ndirs)] + (["d0/sub"] if ndirs and rng.random() < 0.5 else [])
    if rng.random() < 0.3:
        dirs += [rng.choice([".ci", ".devcontainer/helpers", "d0/.hidden"])]       # directories whose names start with a dot
    npool = rng.randint(1, 6) if not big else 1
    pool = rng.sample(range(len(POOL)), npool)
    files = {}
    for i in range(rng.randint(2, 14) if not big else rng.randint(45, 70)):
        d = rng.choice(dirs)
        name = f"f{i}{rng.choice(EXTS)}"
        files[os.path.join(d, name)] = rng.choice(pool)
    links, hard, nonsrc = {}, {}, {}
    names = sorted(files)
    for i in range(rng.choice([0, 0, 1, 2])):
        t = rng.choice(names)
        links[os.path.join(rng.choice(dirs), f"l{i}.c")] = t
    for i in range(rng.choice([0, 0, 1])):
        t = rng.choice(names)
        hard[os.path.join(rng.choice(dirs), f"hl{i}.c")] = t
    for i in range(rng.choice([0, 1])):
        t = rng.choice(names)
        nonsrc[os.path.join(rng.choice(dirs), f"n{i}.txt")] = files[t]
    excludes = []
    x = rng.random()
    if force_neg:
        x = 0.5
    if x < 0.25 and ndirs:
        excludes = [f"d{rng.randrange(ndirs)}/"]
    elif x < 0.4:
        excludes = ["*" + rng.choice(EXTS)]
    elif x < 0.6 or force_neg:
        # order matters: a wildcard followed by the re-inclusion of one file name (the last matching pattern decides)
        t = rng.choice(names)
        excludes = ["*" + os.path.splitext(t)[1], "!" + os.path.basename(t)]
        # the re-included file has a twin with another extension, so that its membership shows in the report
        other = rng.choice([e for e in EXTS if e != os.path.splitext(t)[1]])
        files["zz_twin_of_reincluded" + other] = files[t]
        if rng.random() < 0.3:
            excludes.append("*" + rng.choice(EXTS))
    return {"files": files, "links": links, "hard": hard, "nonsrc": nonsrc, "excludes": excludes}


def excluded(rel, excludes):
    """gitignore semantics for the three pattern shapes generated here (directory `d/`, `*ext`, `!basename`): the last
    matching pattern decides; a file below an excluded directory cannot be re-included (never generated together)."""
    verdict = False
    for p in excludes:
        if p.endswith("/"):
            if rel.startswith(p) or ("/" + p) in ("/" + rel):
                verdict = True
        elif p.startswith("!"):
            if os.path.basename(rel) == p[1:]:
                verdict = False
        elif p.startswith("*") and rel.endswith(p[1:]):
            verdict = True
    return verdict


def build(root, case):
    shutil.rmtree(root, ignore_errors=True)
    os.makedirs(root)
    for rel, cid in case["files"].items():
        p = os.path.join(root, rel)
        os.makedirs(os.path.dirname(p), exist_ok=True)
        with open(p, "wb") as f:
            f.write(POOL[cid])
    for rel, cid in case["nonsrc"].items():
        p = os.path.join(root, rel)
        os.makedirs(os.path.dirname(p), exist_ok=True)
        with open(p, "wb") as f:
            f.write(POOL[cid])
    # identical time stamps: os.stat signatures of same-size files are equal, as after cp -p / tar / checkout
    for dp, dn, fn in os.walk(root):
        for name in fn:
            os.utime(os.path.join(dp, name), (1_600_000_000, 1_600_000_000))
    for rel, t in case["links"].items():
        p = os.path.join(root, rel)
        os.makedirs(os.path.dirname(p), exist_ok=True)
        os.symlink(os.path.relpath(os.path.join(root, t), os.path.dirname(p)), p)
    for rel, t in case["hard"].items():
        p = os.path.join(root, rel)
        os.makedirs(os.path.dirname(p), exist_ok=True)
        os.link(os.path.join(root, t), p)
    # a link placed in the root is enumerated before its target in a sub-directory
    


def oracle(root, case):
    """Byte-wise partition classes (size >= 2) over member files."""
    members = [r for r in list(case["files"]) + list(case["hard"]) if not excluded(r, case["excludes"])]
    by = {}
    for rel in members:
        with open(os.path.join(root, rel), "rb") as f:
            by.setdefault(f.read(), set()).add(os.path.join(root, rel))
    return {frozenset(v) for v in by.values() if len(v) >= 2}, by


def real_root_parts(root):
    return set(os.path.realpath(root).split("/"))


def cells_of(case, classes, by, root):
    cells = set()
    if any(len(c) >= 3 for c in classes):
        cells.add("class-size>=3")
    if any(len(c) > 20 for c in classes):
        cells.add("class-size>20")
    if len(classes) >= 2:
        cells.add("classes>=2")
    if not classes:
        cells.add("no-duplicates")
    lens = {}
    for content in by:
        lens.setdefault(len(content) % 3, []).append(content)
    if any(len(v) >= 2 for v in lens.values()):
        cells.add("weak-digest-collision-different-content")
    contents = list(by)
    for i, a in enumerate(contents):
        for b in contents[i + 1:]:
            if a and b and (a[:-1] == b[:-1] or a == b[:-1] or b == a[:-1] or (len(a) == len(b) and sum(x != y for x, y in zip(a, b)) == 1)):
                cells.add("near-duplicate")
    if b"" in by and len(by[b""]) >= 2:
        cells.add("empty-files")
    allc = {}
    for rel, cid in case["files"].items():
        allc.setdefault(cid, []).append(rel)
    for cid, rels in allc.items():
        if len(rels) >= 2 and any(excluded(r, case["excludes"]) for r in rels) and not all(excluded(r, case["excludes"]) for r in rels):
            cells.add("excluded-twin")
    if case["links"]:
        cells.add("symlinked-twin")
    if case["hard"]:
        cells.add("hard-link")
    if case["nonsrc"]:
        cells.add("non-source-twin")
    if any(part.startswith(".") for f_ in case["files"] for part in f_.split("/")[:-1]):
        cells.add("dot-directory")
    if any(p.endswith("/") and p.rstrip("/") in real_root_parts(root) for p in case["excludes"]):
        cells.add("ancestor-directory-named-like-a-pattern")
    if any(p.startswith("!") for p in case["excludes"]):
        cells.add("negation-after-wildcard")
    if len(case["files"]) % 2 == 0:
        cells.add("directory-named-through-link")
    sizes = {}
    for content in by:
        sizes.setdefault(len(content), []).append(content)
    if any(len(v) >= 2 for v in sizes.values()):
        cells.add("same-size-same-mtime-different-content")
    if any("/" not in l and "/" in t for l, t in case["links"].items()):
        cells.add("link-enumerated-before-target")
    return cells


def observe(root, case, weak):
    from codebasin import CodeBase, report
    given = root
    if len(case["files"]) % 2 == 0:
        # the code-base directory named through a symbolic link
        given = root.rstrip("/") + "-by-link"
        if not os.path.lexists(given):
            os.symlink(root, given)
    cb = CodeBase(given, exclude_patterns=list(case["excludes"]))
    orig = hashlib.file_digest
    calls = [0]
    if weak:
        class W:
            def __init__(self, n):
                self.n = n

            def hexdigest(self):
                return "weak%d" % (self.n % 3)

        def fd(f, alg):
            calls[0] += 1
            return W(len(f.read()))

        hashlib.file_digest = fd
    try:
        res = report.find_duplicates(cb)
    finally:
        hashlib.file_digest = orig
    return {frozenset(str(p) for p in s) for s in res}, [len(s) for s in res], calls[0]


def check_case(ctx, case, root, cls, do_cli=False):
    acc = ctx.acc
    build(root, case)
    # the scratch tree is rebuilt at the same path with identical time stamps: filecmp's module-level cache
    # (keyed by path + stat signature) would otherwise answer from an earlier case
    import filecmp
    filecmp.clear_cache()
    real_root = os.path.realpath(root)
    classes, by = oracle(real_root, case)
    cells = cells_of(case, classes, by, real_root)
    nontriv = case if (classes or "near-duplicate" in cells) else None
    problems = []
    for weak in (False, True):
        try:
            obs, sizes, ncalls = observe(real_root, case, weak)
            acc.hook("find_duplicates")
            if weak:
                acc.hook("H-hash", ncalls)
        except Exception as e:
            problems.append({"mode": "weak-hash" if weak else "normal", "observed": f"{type(e).__name__}: {e}"})
            continue
        if obs != classes:
            problems.append({"mode": "weak-hash" if weak else "normal",
                             "expected": sorted(sorted(os.path.relpath(p, real_root) for p in c) for c in classes),
                             "observed": sorted(sorted(os.path.relpath(p, real_root) for p in c) for c in obs)})
        elif len(sizes) != len(classes):
            problems.append({"mode": "weak-hash" if weak else "normal", "kind": "group listed twice", "sizes": sizes})
    # the code base given as two directories whose names are prefix-related (d1, d1x): only their files count
    tops = sorted({r.split("/")[0] for r in case["files"] if "/" in r})
    if tops and not problems and not any(p.endswith("/") for p in case["excludes"]):
        from codebasin import CodeBase, report
        d1 = tops[0]
        twin = os.path.join(real_root, d1 + "x")
        if not os.path.exists(twin):
            shutil.copytree(os.path.join(real_root, d1), twin, symlinks=True)
        sel = [os.path.join(real_root, d1), twin]
        by2 = {}
        for d in sel:
            for dp, dn, fn in os.walk(d):
                for name in fn:
                    full = os.path.join(dp, name)
                    rel = os.path.relpath(full, d)
                    if os.path.islink(full) or os.path.splitext(name)[1] not in EXTS or excluded(rel, case["excludes"]):
                        continue
                    with open(full, "rb") as f:
                        by2.setdefault(f.read(), set()).add(full)
        want2 = {frozenset(v) for v in by2.values() if len(v) >= 2}
        try:
            filecmp.clear_cache()
            got2 = {frozenset(str(p) for p in s_) for s_ in report.find_duplicates(CodeBase(*sel, exclude_patterns=list(case["excludes"])))}
            acc.hook("find_duplicates")
            cells.add("two-directory-code-base")
            if got2 != want2:
                problems.append({"mode": "two-directory code base", "directories": [d1, d1 + "x"],
                                 "expected": sorted(sorted(os.path.relpath(p, real_root) for p in c) for c in want2),
                                 "observed": sorted(sorted(os.path.relpath(p, real_root) for p in c) for c in got2)})
        except Exception as e:
            problems.append({"mode": "two-directory code base", "observed": f"{type(e).__name__}: {e}"})
        shutil.rmtree(twin, ignore_errors=True)
    if not problems:
        # the printed report, written to a stream of the caller's choosing, lists the same groups
        import io
        from codebasin import CodeBase, report
        buf = io.StringIO()
        filecmp.clear_cache()
        cb2 = CodeBase(real_root, exclude_patterns=list(case["excludes"]))
        try:
            report.duplicates(cb2, stream=buf)
            text = buf.getvalue()
            groups = {frozenset(g) for g in cli.parse_duplicates(text if "Duplicates" in text else "Duplicates\n" + text)}
            cells.add("report-to-stream")
            if groups != classes or (not classes and "No duplicates found." not in text):
                problems.append({"mode": "report.duplicates(stream=...)", "expected": sorted(sorted(os.path.relpath(p, real_root) for p in c) for c in classes),
                                 "observed": sorted(sorted(os.path.relpath(p, real_root) for p in c) for c in groups), "text": text[:300]})
        except Exception as e:
            problems.append({"mode": "report.duplicates(stream=...)", "observed": f"{type(e).__name__}: {e}"})
        # the same CodeBase object asked again after a twin of an existing file has been added
        if case["files"] and not problems:
            src = sorted(case["files"])[0]
            if not excluded(src, case["excludes"]) and not excluded("added_twin" + os.path.splitext(src)[1], case["excludes"]):
                twin = os.path.join(real_root, "added_twin" + os.path.splitext(src)[1])
                shutil.copyfile(os.path.join(real_root, src), twin)
                os.utime(twin, (1_600_000_000, 1_600_000_000))
                filecmp.clear_cache()
                again = {frozenset(str(p) for p in s_) for s_ in report.find_duplicates(cb2)}
                cells.add("same-object-after-a-file-was-added")
                if not any(twin in g and os.path.join(real_root, src) in g for g in again):
                    problems.append({"mode": "second find_duplicates on the same CodeBase after a twin was added", "added": "added_twin", "of": src,
                                     "observed": sorted(sorted(os.path.relpath(p, real_root) for p in c) for c in again)})
                os.unlink(twin)
    if do_cli and not problems:
        with open(os.path.join(real_root, "analysis.toml"), "w") as f:
            if case["excludes"]:
                f.write("[codebase]\nexclude = [%s]\n" % ", ".join('"%s"' % e for e in case["excludes"]))
            f.write("[platform.p]\ncommands = \"db.json\"\n")
        with open(os.path.join(real_root, "db.json"), "w") as f:
            f.write("[]")
        rc, out, err = cli.run("codebasin", ["-R", "duplicates", "analysis.toml"], real_root)
        groups = {frozenset(g) for g in cli.parse_duplicates(out)}
        cells.add("cli")
        if any(len(c) > 20 for c in classes):
            cells.add("cli:class-size>20")
        if any(p.startswith("!") for p in case["excludes"]):
            cells.add("cli:negation-after-wildcard")
        if rc != 0 or groups != classes or (not classes and "No duplicates found." not in out):
            problems.append({"mode": "cli", "rc": rc, "expected": sorted(map(sorted, classes)),
                             "observed": sorted(map(sorted, groups)), "stderr": err[-300:]})
    if problems:
        acc.violated({"input": case, "witness": {"problems": problems, "case": case}}, cells=cells, nontrivial=nontriv, cls=cls)
    else:
        acc.held(cells=cells, nontrivial=nontriv, cls=cls,
                 sample={"files": {k: "pool[%d] (%d bytes)" % (v, len(POOL[v])) for k, v in case["files"].items()},
                         "links": case["links"], "hard": case["hard"], "excludes": case["excludes"],
                         "classes": sorted(sorted(os.path.relpath(p, real_root) for p in c) for c in classes)})


def fixed_scenarios(ctx, root):
    """Deterministic trees outside what gen_case produces.  Membership is what the code base ITSELF answers for every
    path of an independent os.walk (which files a pattern list keeps is C09's subject); the expected groups are the
    byte-wise classes of size >= 2 over those members.
      R  negated patterns naming files below a directory that an earlier pattern excludes
      B  file names that are not valid UTF-8 (created through the bytes interface), with twins"""
    import filecmp
    import io
    from codebasin import CodeBase, report
    acc = ctx.acc
    A, B, C = POOL[0], POOL[1], POOL[2 % len(POOL)]
    scen = []
    for k, pats in enumerate((["vendor/", "!vendor/patched.h"], ["sub/*", "!sub/inner/x.c"], ["*", "!*.c"], ["vendor/**", "!vendor/deep/keep.hpp"],
                              ["/vendor", "!patched.h"], [])):
        scen.append(("R%d" % k, {"src/patched.h": A, "vendor/patched.h": A, "vendor/other.c": B, "sub/inner/x.c": B, "sub/y.c": B, "top.c": B,
                                  "vendor/deep/keep.hpp": C, "src/keep_twin.hpp": C, "src/solo.c": POOL[3 % len(POOL)]}, pats, "reinclusion-below-excluded-directory"))
    bad = {os.fsdecode(b"src/caf\xe9.c"): A, "src/cafe.c": A, "util.c": B, "util_copy.c": B, os.fsdecode(b"\xfctil.c"): B,
           os.fsdecode(b"sub/\xff\xfe.h"): C, "sub/plain.h": C, os.fsdecode(b"sub/only\x80.c"): POOL[3 % len(POOL)]}
    # hidden files whose whole name is an extension are not source files: their twins stay unique
    scen.append(("H0", {"include/config.h": A, "include/.h": A, "decls.inc": B, ".inc": B, "src/x.c": C, "src/.c": C, "src/.cpp": C, "y.hpp": POOL[3 % len(POOL)]}, [],
                 "hidden-file-named-like-an-extension"))
    scen.append(("B0", bad, [], "file-names-not-valid-utf-8"))
    scen.append(("B1", bad, ["*.h"], "file-names-not-valid-utf-8"))
    for k, (name, files, pats, cell) in enumerate(scen):
        if (k + 1) % ctx.nshards != ctx.shard:
            continue
        shutil.rmtree(root, ignore_errors=True)
        for rel, content in files.items():
            p = os.path.join(root, rel)
            os.makedirs(os.path.dirname(p), exist_ok=True)
            with open(p, "wb") as f:
                f.write(content)
            os.utime(p, (1_600_000_000, 1_600_000_000))
        real_root = os.path.realpath(root)
        problems = []
        try:
            filecmp.clear_cache()
            cb = CodeBase(real_root, exclude_patterns=list(pats))
            by = {}
            members = []
            for dp, dn, fn in os.walk(real_root):
                for nm in fn:
                    full = os.path.join(dp, nm)
                    if full in cb:
                        members.append(full)
                        with open(full, "rb") as f:
                            by.setdefault(f.read(), set()).add(full)
            want = {frozenset(v) for v in by.values() if len(v) >= 2}
            if cell.startswith("hidden-file"):
                want = set()        # by construction (not by the code's own answer): `.h`, `.inc`, `.c` are no source files
            got = {frozenset(str(p) for p in s_) for s_ in report.find_duplicates(cb)}
            acc.hook("find_duplicates")
            show = lambda cl: sorted(sorted(ascii(os.path.relpath(p, real_root)) for p in c) for c in cl)
            if got != want:
                problems.append({"mode": "find_duplicates", "members": sorted(ascii(os.path.relpath(m, real_root)) for m in members),
                                 "expected": show(want), "observed": show(got)})
            buf = io.StringIO()
            filecmp.clear_cache()
            report.duplicates(CodeBase(real_root, exclude_patterns=list(pats)), stream=buf)
            groups = {frozenset(g) for g in cli.parse_duplicates("Duplicates\n" + buf.getvalue())}
            if groups != want:
                problems.append({"mode": "report.duplicates(stream=...)", "expected": show(want), "observed": show(groups)})
        except Exception as e:
            problems.append({"mode": "exception", "observed": f"{type(e).__name__}: {e}"})
        cells = {"fixed:" + cell}
        if cell.startswith("reinclusion") and any("vendor/patched.h" in m or "sub/inner" in m for m in members) and pats:
            cells.add("fixed:member-below-excluded-directory-has-a-twin")
        case = {"scenario": name, "patterns": pats, "files": sorted(ascii(r) for r in files)}
        if problems:
            acc.violated({"input": case, "witness": {"problems": problems, "case": case}}, cells=cells, cls="fixed", nontrivial=None)
        else:
            acc.held(cells=cells, cls="fixed", nontrivial=None)


def cli_directory_only_pattern(ctx, root):
    """`codebasin -R duplicates -x 'test*/'`: the pattern names directories; the top-level twins test_io.cpp and
    test_net.cpp are files and stay in the report, the copy below tests/ goes."""
    acc = ctx.acc
    shutil.rmtree(root, ignore_errors=True)
    os.makedirs(os.path.join(root, "tests"))
    os.makedirs(os.path.join(root, "src"))
    content = {"test_io.cpp": POOL[0], "test_net.cpp": POOL[0], "tests/copy.cpp": POOL[0], "src/a.cpp": POOL[1], "src/b.cpp": POOL[1], "tests/helper.h": POOL[2 % len(POOL)],
               "src/helper_unique.h": POOL[3 % len(POOL)]}
    for rel, c in content.items():
        with open(os.path.join(root, rel), "wb") as f:
            f.write(c)
    with open(os.path.join(root, "analysis.toml"), "w") as f:
        f.write("[platform.p]\ncommands = \"db.json\"\n")
    with open(os.path.join(root, "db.json"), "w") as f:
        f.write("[]")
    real_root = os.path.realpath(root)
    problems = []
    for xs, want in ((["test*/"], [["test_io.cpp", "test_net.cpp"], ["src/a.cpp", "src/b.cpp"]]), (["./tests/", "src//"], [["test_io.cpp", "test_net.cpp"]]),
                     (["tests"], [["test_io.cpp", "test_net.cpp"], ["src/a.cpp", "src/b.cpp"]]), ([], [["test_io.cpp", "test_net.cpp", "tests/copy.cpp"], ["src/a.cpp", "src/b.cpp"]])):
        rc, out, err = cli.run("codebasin", ["-R", "duplicates"] + [y for x in xs for y in ("-x", x)] + ["analysis.toml"], real_root)
        acc.hook("find_duplicates")
        groups = sorted(sorted(os.path.relpath(p, real_root) for p in g) for g in cli.parse_duplicates(out))
        if xs == ["./tests/", "src//"]:
            continue        # (what git makes of `./x/` and `x//` is C09's subject; run for the record only)
        if rc != 0 or groups != sorted(sorted(g) for g in want):
            problems.append({"-x": xs, "rc": rc, "expected": sorted(sorted(g) for g in want), "observed": groups, "stderr": err[-200:]})
    cells = {"cli:-x-directory-only-pattern-beside-files-of-that-name"}
    if problems:
        acc.violated({"input": {"scenario": "cli -x directory-only"}, "witness": {"problems": problems}}, cells=cells, cls="fixed", nontrivial=None)
    else:
        acc.held(cells=cells, cls="fixed", nontrivial=None)


def post_check(m, tier):
    # the weak-digest injection is only meaningful while the code hashes files at all; report if it never fired
    return [] if m["hooks"].get("H-hash", 0) else ["H-hash (forced digest collisions) never fired: find_duplicates no longer calls hashlib.file_digest"] \
        if m["verdicts"].get("violated", 0) == 0 else []


def run_shard(ctx):
    b = bounds(ctx.tier)
    rng = ctx.rng("cases")
    # the tree sits below directories called d0 / d1 / sub: patterns naming such directories apply inside the code base only
    root = os.path.join(ctx.scratch, "d1", "d0", "sub", "cb")
    os.makedirs(os.path.dirname(root), exist_ok=True)
    fixed_scenarios(ctx, root)
    if ctx.shard == 0:
        cli_directory_only_pattern(ctx, root)
    for i in range(b["cases"]):
        # every 3rd command-line case and one case in 50 elsewhere holds a class of more than 20 files
        case = gen_case(rng, big=(i % 3 == 1 if i < b["cli_cases"] else i % 50 == 7), force_neg=(i < b["cli_cases"] and i % 3 == 2))
        if ctx.mine(i):
            check_case(ctx, case, root, "random", do_cli=(i < b["cli_cases"]))
    shutil.rmtree(root, ignore_errors=True)


def replay(record, ctx):
    root = os.path.join(ctx.scratch, "cb")
    check_case(ctx, record["input"], root, "replay")
    return {"verdict": "violated" if ctx.acc.verdicts["violated"] else "held", "violations": ctx.acc.violations}
