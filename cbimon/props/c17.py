"""
C17 -- Fortran sources: comment/continuation handling and preprocessor conditionals.

Monitored execution: FileParser(path).parse_file() on generated free-form
.f90/.F90 files (counted lines, directive class) and finder.find (conditional
selection of marker statements for every define set).  Oracles: the fscan
reference scanner for line classes; `gfortran -cpp -E` markers for selection;
`gfortran -cpp -fsyntax-only` must accept the text (premise).
"""

import itertools
import os
import re
import subprocess

from cbimon import cbi
from cbimon.oracles import fscan

PROP = "C17"
RULE = ("free-form program = declarations + body from a statement grammar (assignments, marker calls `call m_<line>()`, "
        "character literals in both quote kinds with doubled quotes and embedded ! & //, trailing and full-line comments, "
        "blank lines, sentinels !$omp !$acc !dir$ !$, continuations with and without leading &, comments / blank lines "
        "inside a continued statement, continuation inside a literal) interleaved with #if/#ifdef/#ifndef/#elif/#else/"
        "#endif/#define/#undef/#include; every define set over {A, B(=0,1,2), C}. E: every sequence of <=K lines from a "
        "34-line vocabulary. Excluded: gfortran -cpp -fsyntax-only rejects the text for the empty define set, or fscan "
        "calls it ill-formed. Non-trivial: >=1 comment / continuation / literal feature and >=1 conditional; distinct by text.")
ASSUMPTIONS = ["gfortran 12.2 -cpp is the Fortran preprocessing pipeline; fscan is the reference for line classes",
               "a line holding only a continuation '&' holds no statement text", "sentinel = '!' letters* '$'"]
REQUIRED_HOOKS = ["FileParser", "H-gfortran"]

PRE = ["program p", "  implicit none", "  integer :: x, y", "  character(len=200) :: s", "  x = 0; y = 0; s = ''"]
POST = ["end program p"]

VOCAB = [
    "x = 1", "x = 1 &", "  & + 2", "  + 2", "! c", "", "   ", "!$omp barrier", "s = 'a ! b'", "s = \"a & b\"", "s = 'x' // 'y' ! c",
    "s = 'abc&", "  &def'", "s = 'it''s'", "x = 2 ! c & d", "x = 3 ; y = 4", "call m()", "#ifdef A", "#else", "#endif", "#define Q 1",
    "!dir$ ivdep", "!$ x = 5", "x = 1 & ! c", "  ! c in continuation", "s = \"say \"\"hi\"\"\" // '!'", "x = Q", "#if defined(A) && \\",
    "    defined(C)", "s = 'back\\'", "s = '&' // \"&\"", "y = x & ! 'q", "  &   + 1 ! \"", "#undef Q",
    "s = \"a & ! b\"", "! plain comment", "s = 'abc&  ", "&def' ! c", "&#9' ! c", "#else ! c", "#endif ! c",
]

LITS = ["'a\x0cb'", "'a ! b'", "\"x & y\"", "'it''s'", "\"say \"\"hi\"\"\"", "'a // b'", "'!'", "'&'", "\"'\"", "'\"'", "'plain'", "\"#if 0\"", "'! &'",
        "'a&b'", "\"!$omp\"", "'stop &  ! now'", "\"a & ! b\"", "'x &'"]
COMMENTS = ["!DIR$ IVDEP", "!DEC$ ATTRIBUTES FORCEINLINE :: f", "!GCC$ unroll 4", "!Dir$ nofusion", "!$& + 2", "!$OMP PARALLEL DO", "!$acc& copy(x)",
            "!$omp& private(y)", "! page\x0cbreak", "! c", "! don't", "! \"x", "! a & b", "!! double", "!c$", "! #ifdef A", "!$omp parallel", "!$acc kernels", "!dir$ ivdep", "!$ y = 1"]


# headers included (two levels deep) from the Fortran file: free-form Fortran text, whatever their extension
INC_FILES = {
    "inc.h": "  call m_inc()\n#include \"inc2.h\"\n! trailing comment: isn't code\n#ifdef FROM_FH\n  call m_fh_seen()\n#else\n  call m_fh_unseen()\n#endif\n",
    # a header whose extension is not one of the source-file extensions (the .fh / .fi convention): still included
    "defs.fh": "! definitions, don't count me\n#define FROM_FH 1\n  call m_fh()\n",
    "inc2.h": "! second level: an ordinary comment, isn't counted\n  call m_inc2()\n      ! indented comment\n#define FROM_INC2\n"
              "! c\n  s = 'a' // 'b' ! concatenation, not a C++ comment\n\n  x = 1 &\n    ! comment inside\n    + 2\n#include \"defs.fh\"\n",
}


def bounds(tier):
    q = tier == "quick"
    return {"K": 2 if q else 3, "random": 500 if q else 15000}


def exhaustive(tier):
    return True


def required_cells(tier):
    return ["comment", "comment-in-continuation", "blank-in-continuation", "continuation", "leading-&", "literal-continued",
            "doubled-quote", "special-char-in-literal", "sentinel", "directive", "comment-after-&", "selection-compared",
            "define-sets>=4", "class:E", "class:R", "include", "all-code-lines-compared", "directive-inside-continuation",
            "comment-in-literal-continuation", "blank-in-literal-continuation", "nested-include",
            "hash-first-in-literal-continuation", "comment-after-conditional-directive", "selection-inside-included-header",
            "include-of-non-source-extension", "form-feed-in-comment-or-literal", "sentinel:upper-or-mixed-case-prefix", "sentinel:followed-by-ampersand",
            "fixed:line-longer-than-132-columns", "fixed:c-comment-from-directive-line-to-later-line",
            "fixed:conditional-inside-continued-literal-with-comments", "fixed:c-comment-opener-inside-literal",
            "fixed:blank-only-piece-of-a-continued-literal"]


def gfortran(args, cwd):
    # (no limit on the length of a free-form line: the default of 132 is a compiler option, not part of the text)
    p = subprocess.run(["gfortran", "-ffree-line-length-none"] + args, cwd=cwd, capture_output=True, text=True, timeout=120, errors="replace")
    return p.returncode, p.stdout, p.stderr


def rand_body(rng, depth=0):
    out = []
    for _ in range(rng.randint(1, 7)):
        x = rng.random()
        if x < 0.2:
            out.append("@marker")
        elif x < 0.35:
            lit = rng.choice(LITS)
            t = f"s = {lit}"
            if rng.random() < 0.4:
                t += " // " + rng.choice(LITS)
            if rng.random() < 0.3:
                t += "  " + rng.choice(COMMENTS[:5])
            out.append(t)
        elif x < 0.45:
            out.append(rng.choice(COMMENTS))
        elif x < 0.5:
            out.append(rng.choice(["", "   ", "\t"]))
        elif x < 0.65:
            # continued statement, optionally with comment / blank lines inside and leading &
            parts = ["x = 1", "+ 2", "+ y", "- 3"][: rng.randint(2, 4)]
            for i, p in enumerate(parts):
                last = i == len(parts) - 1
                lead = ("  & " if rng.random() < 0.5 else "    ") if i else ""
                tail = "" if last else (" &" + (rng.choice(["", " ! c", " ! 'q"]) if rng.random() < 0.4 else ""))
                out.append(lead + p + tail)
                if not last and rng.random() < 0.35:
                    out.append(rng.choice(["  ! comment inside", "", "   ! 'quote", "!$omp flush"]))
        elif x < 0.68 and depth < 3:
            # preprocessor conditional interleaved inside a continued statement
            nm = rng.choice(["A", "C"])
            out += ["x = 1 &", f"#ifdef {nm}", "  + 2 &" if rng.random() < 0.5 else "  & + 2 &", "#else", "  + 3 &", "#endif", "  + 4"]
        elif x < 0.7:
            # character context continued: '&' may be followed by blanks, comment and blank lines may sit in between
            out.append("s = 'abc&" + rng.choice(["", "", "  ", "\t"]))
            for _ in range(rng.choice([0, 0, 1, 2])):
                out.append(rng.choice(["  ! comment between the halves", "", "! it's", "   "]))
            # the second half may start with characters that mean something elsewhere: '#', '!', '&'
            out.append(rng.choice(["   &def'", "   &def'", "   &#42 (gpu)'", "&#41 (cpu)'", "   & #7'", "   &!x'", "   &&'"]) + " // " + rng.choice(LITS))
        elif x < 0.9 and depth < 3:
            kind = rng.choice(["ifdef", "ifndef", "if", "if-else", "if-elif"])
            name = rng.choice(["A", "B", "C"])
            # conditional directives may carry a trailing Fortran comment (traditional cpp ignores the extra tokens)
            tc = (lambda: rng.choice(["", "", "", " ! " + name, " ! not " + name + "'s"]))
            if kind in ("ifdef", "ifndef"):
                out.append(f"#{kind} {name}")         # (gfortran warns about extra tokens after #ifdef, not after #else / #endif)
                out += rand_body(rng, depth + 1)
                if rng.random() < 0.5:
                    out.append("#else" + tc())
                    out += rand_body(rng, depth + 1)
                out.append("#endif" + tc())
            else:
                out.append("#if " + rng.choice([f"defined({name})", "B > 1", "defined(A) && !defined(C)", "B == 1 || defined(C)", "B"]))
                out += rand_body(rng, depth + 1)
                if kind == "if-elif":
                    out.append("#elif " + rng.choice(["defined(C)", "B == 2", "!defined(A)"]))
                    out += rand_body(rng, depth + 1)
                if kind != "if" and rng.random() < 0.7:
                    out.append("#else" + rng.choice(["", "", " ! otherwise"]))
                    out += rand_body(rng, depth + 1)
                out.append("#endif" + rng.choice(["", "", " ! done"]))
        elif x < 0.95:
            out.append(rng.choice(["#define LOCAL 1", "#undef LOCAL", "#define A2", "x = 7"]))
        else:
            out.append("@include")
    return [o for o in out if o is not None]


def render(body):
    lines = list(PRE)
    for b in body:
        if b == "@marker":
            lines.append(f"  call m_{len(lines) + 1}()")
        elif b == "@include":
            lines.append('#include "inc.h"')
        else:
            lines.append(b if b.startswith("#") else ("  " + b if b.strip() and not b.startswith((" ", "\t")) else b))
    lines += POST
    return "\n".join(lines) + "\n"


DEFSETS = [[]] + [[f"-D{n}"] for n in ("A", "C")] + [["-DB=0"], ["-DB=1"], ["-DB=2"], ["-DA", "-DB=2"], ["-DA", "-DC"], ["-DB=1", "-DC"],
                                                     ["-DA", "-DB=2", "-DC"]]


def check_text(ctx, text, work, cls, defsets):
    from codebasin import file_parser, preprocessor
    acc = ctx.acc
    valid, counted, directive, notes = fscan.scan(text)
    if not valid:
        acc.excluded("fscan-ill-formed", cls=cls)
        return
    ext = ".F90" if hash(text) % 2 else ".f90"
    path = os.path.join(work, "prog" + ext)
    for e in (".F90", ".f90"):
        try:
            os.unlink(os.path.join(work, "prog" + e))
        except FileNotFoundError:
            pass
    with open(path, "w") as f:
        f.write(text)
    # the headers live outside the code base: a member file with a C extension is, by design, parsed once as C
    # before any translation unit is processed; only non-member headers inherit the language of their includer
    hdr = work + "-hdr"
    os.makedirs(hdr, exist_ok=True)
    for name, htext in INC_FILES.items():
        with open(os.path.join(hdr, name), "w") as f:
            f.write(htext)
    rc, out, err = gfortran(["-cpp", "-fsyntax-only", "-I", hdr, path], work)
    acc.hook("H-gfortran")
    if rc != 0 or err.strip():
        acc.excluded("gfortran-rejects", cls=cls)
        return
    cells = set(n for n in notes) | {"class:" + cls}
    if re.search(r"&[ \t]*(![^\n]*)?\n#", text):
        cells.add("directive-inside-continuation")
    if "\x0c" in text:
        cells.add("form-feed-in-comment-or-literal")
    if re.search(r"^\s*![A-Za-z]*[A-Z][A-Za-z]*\$", text, re.M):
        cells.add("sentinel:upper-or-mixed-case-prefix")
    if re.search(r"^\s*![A-Za-z]*\$&", text, re.M):
        cells.add("sentinel:followed-by-ampersand")
    if re.search(r"^[ \t]*&[ \t]*#", text, re.M):
        cells.add("hash-first-in-literal-continuation")
    if re.search(r"^#(else|endif) !", text, re.M):
        cells.add("comment-after-conditional-directive")
    problems = []
    try:
        tree = file_parser.FileParser(path).parse_file(summarize_only=False)
        acc.hook("FileParser")
        seen, dirl = [], set()
        for node in tree.walk():
            if isinstance(node, preprocessor.CodeNode):
                seen.extend(node.lines)
                if isinstance(node, preprocessor.DirectiveNode):
                    dirl.update(node.lines)
        if sorted(seen) != counted:
            problems.append({"kind": "counted-set", "missing": sorted(set(counted) - set(seen))[:10], "extra": sorted(set(seen) - set(counted))[:10],
                             "twice": sorted(x for x in set(seen) if seen.count(x) > 1)[:5]})
        elif dirl != directive:
            problems.append({"kind": "directive-class", "expected": sorted(directive), "observed": sorted(dirl)})
        if tree.root.total_sloc != len(seen):
            problems.append({"kind": "total_sloc", "expected": len(seen), "observed": tree.root.total_sloc})
    except Exception as e:
        problems.append({"kind": "exception-parse", "observed": f"{type(e).__name__}: {e}"})
    # conditional selection for every define set
    if not problems and "#" in text:
        markers = {int(m.group(1)): m.group(0) for m in re.finditer(r"call m_(\d+)\(\)", text)}
        for ds in defsets:
            rc, out, err = gfortran(["-cpp", "-E", "-P", "-I", hdr] + ds + [path], work)
            acc.hook("H-gfortran")
            if rc != 0 or err.strip():
                continue
            live = {int(x) for x in re.findall(r"call m_(\d+)\(\)", out)}
            inc_live = "call m_inc()" in out
            try:
                state, _ = cbi.run_find(work, {"p": [cbi.entry(path, [d[2:] for d in ds], [hdr])]})
                used = cbi.used_lines(state, path, "p")
            except Exception as e:
                problems.append({"kind": "exception-find", "defines": ds, "observed": f"{type(e).__name__}: {e}"})
                break
            got = {ln for ln in markers if ln in used}
            cells.add("selection-compared")
            if got != live:
                problems.append({"kind": "conditional-selection", "defines": ds, "expected": sorted(live), "observed": sorted(got)})
                break
            # every counted non-directive line: used iff gfortran keeps text on that physical line
            rc2, out2, err2 = gfortran(["-cpp", "-E", "-I", hdr] + ds + [path], work)
            acc.hook("H-gfortran")
            if rc2 == 0 and not err2.strip():
                kept = set()
                kept_h = {name: set() for name in INC_FILES}
                cur = None
                cur_file = None
                base = os.path.basename(path)
                for ln_text in out2.split("\n"):
                    mm = re.match(r'^# (\d+) "([^"]*)"', ln_text)
                    if mm:
                        cur_file = os.path.basename(mm.group(2))
                        cur = int(mm.group(1)) if (cur_file == base or cur_file in kept_h) else None
                        continue
                    if cur is not None:
                        if ln_text.strip():
                            (kept if cur_file == base else kept_h[cur_file]).add(cur)
                        cur += 1
                code_lines = [ln for ln in counted if ln not in directive]
                exp_used = {ln for ln in code_lines if ln in kept}
                got_used = {ln for ln in code_lines if ln in used}
                cells.add("all-code-lines-compared")
                if exp_used != got_used:
                    problems.append({"kind": "line-selection", "defines": ds, "missing": sorted(exp_used - got_used)[:10],
                                     "extra": sorted(got_used - exp_used)[:10]})
                    break
            if '#include "inc.h"' in text:
                cells.add("include")
                inc_used = bool(state.get_tree(os.path.join(hdr, "inc.h")) and cbi.used_lines(state, os.path.join(hdr, "inc.h"), "p"))
                if inc_used != inc_live:
                    problems.append({"kind": "include-selection", "defines": ds, "expected": inc_live, "observed": inc_used})
                    break
                if inc_live:
                    # the headers are read as free-form Fortran at every nesting level
                    for name, htext in INC_FILES.items():
                        t2 = state.get_tree(os.path.join(hdr, name))
                        if t2 is None:
                            problems.append({"kind": "included-header-not-parsed", "header": name})
                            continue
                        hv, hcounted, hdir, _ = fscan.scan(htext)
                        hseen = sorted(ln for node in t2.walk() if isinstance(node, preprocessor.CodeNode) for ln in node.lines)
                        cells.add("nested-include")
                        if hseen != hcounted:
                            problems.append({"kind": "counted-set-of-included-header", "header": name, "expected": hcounted, "observed": hseen})
                        elif rc2 == 0 and not err2.strip():
                            # selection inside the header: its code lines are used iff gfortran keeps text on them
                            hcode = [ln for ln in hcounted if ln not in hdir]
                            hused = cbi.used_lines(state, os.path.join(hdr, name), "p")
                            want_h, got_h = {ln for ln in hcode if ln in kept_h[name]}, {ln for ln in hcode if ln in hused}
                            cells.add("selection-inside-included-header")
                            if name.endswith(".fh"):
                                cells.add("include-of-non-source-extension")
                            if want_h != got_h:
                                problems.append({"kind": "line-selection-inside-included-header", "header": name, "defines": ds,
                                                 "missing": sorted(want_h - got_h), "extra": sorted(got_h - want_h)})
                    if problems:
                        break
        if len(defsets) >= 4:
            cells.add("define-sets>=4")
    nontriv = text if (notes & {"comment", "continuation", "special-char-in-literal", "sentinel", "literal-continued"} and "directive" in notes) else None
    if problems:
        sh = shrink(text, work)
        acc.violated({"input": {"text": text}, "witness": {"shrunk": sh, "text": text, "problems": problems[:4], "reference_counted": counted}},
                     mechanism=classify(sh), cells=cells, nontrivial=nontriv, cls=cls)
    else:
        acc.held(cells=cells, nontrivial=nontriv, cls=cls, sample={"text": text, "counted": counted, "directive": sorted(directive)})


def still_bad(text, work):
    """Line-class violation only (used by the shrinker): valid by fscan + gfortran, and FileParser disagrees with fscan."""
    from codebasin import file_parser, preprocessor
    valid, counted, directive, notes = fscan.scan(text)
    if not valid:
        return False
    sdir = work + "-shrink"
    os.makedirs(sdir, exist_ok=True)
    path = os.path.join(sdir, "shrink.f90")
    with open(path, "w") as f:
        f.write(text)
    rc, out, err = gfortran(["-cpp", "-fsyntax-only", "-I", work + "-hdr", path], sdir)
    if rc != 0 or err.strip():
        return False
    try:
        tree = file_parser.FileParser(path).parse_file(summarize_only=False)
    except Exception:
        return True
    seen = []
    for node in tree.walk():
        if isinstance(node, preprocessor.CodeNode):
            seen.extend(node.lines)
    return sorted(seen) != counted


def shrink(text, work, budget=60):
    lines = text.split("\n")
    if not still_bad(text, work):
        return text
    changed = True
    while changed and budget > 0:
        changed = False
        for i in range(len(PRE), len(lines) - 2):
            cand = lines[:i] + lines[i + 1:]
            budget -= 1
            if still_bad("\n".join(cand), work):
                lines, changed = cand, True
                break
            if budget <= 0:
                break
    return "\n".join(lines)


def classify(shrunk):
    body = "\n".join(shrunk.split("\n")[len(PRE):])
    if re.search(r"\\['\"]", body):
        return "backslash-before-closing-quote"
    if re.search(r"(?m)^&[ \t]+&[ \t]*$", body):
        return "blank-only-piece-of-a-continued-literal-in-column-one"
    return None


def fixed_texts():
    """Deterministic texts outside the statement grammar:
      long:    statements far longer than 132 characters whose closing quote, or trailing comment with an apostrophe,
               lies beyond column 132 (and beyond 1000), followed by ordinary comments that hold an apostrophe;
      dircom:  a C comment that starts on a directive line and ends on a LATER line (the preprocessor blanks all of it)."""
    for n in (100, 131, 132, 133, 140, 200, 1200):
        lit = "'" + "x" * n + "'"
        body = [f"  s = {lit}", "  ! it's a comment, isn't it", "  call m_8()", "  x = " + " + ".join(["1"] * (n // 4 + 1)) + " ! don't count: it's one",
                "  ! 'quoted' comment", "  call m_11()", f"  s = {lit} // 'b'  ! tail's", "  ! last one's", "  y = 2"]
        yield "long", "\n".join(PRE + body + POST) + "\n"
    # a continued character literal interrupted by a conditional, with ordinary full-line comments between the pieces
    for head, tail in (("  s = \"alpha &", "      &gamma\""), ("  s = 'it''s &", "  &over'"), ("  s = 'a' // \"b &", "&c\" // 'd'")):
        body = [head, "#ifdef A", "      ! an ordinary comment between the pieces of the literal, isn't it", "      &beta ! inside the literal &", "#endif",
                "      ! another ordinary comment", "#if B == 1", "   ! a third one: don't count", "#else", "  ! fourth", "#endif", tail, "  call m_%d()" % (len(PRE) + 13)]
        yield "litdir", "\n".join(PRE + body + POST) + "\n"
    # a piece of a continued literal that consists of blanks only: the blanks are characters of the literal
    for mid in ("      &   &", "&   &", " &  &", "& &", "&\t&"):
        body = ["  s = \"ab&", mid, "      &cd\"", "  ! comment", "  y = 2"]
        yield "litblank", "\n".join(PRE + body + POST) + "\n"
    # literals that hold the opener (and the closer) of a C comment: they are literal text
    for lits in (("\"src/*.f90\"", "'*/'"), ("'/* not a comment'", "\"still code\""), ("\"a /* b\"", "\"c */ d\"")):
        body = ["  s = " + lits[0], "#ifdef A", "  call m_%d()" % (len(PRE) + 3), "#endif", "  ! plain comment", "  s = " + lits[1], "  call m_%d()" % (len(PRE) + 7)]
        yield "litc", "\n".join(PRE + body + POST) + "\n"
    for opener, mid, closer in (("#define X 1 /* start", [" still comment"], " end */"), ("#ifdef A /* why", [" because"], " of this */"),
                                ("#define Y 2 /* it's", [], " over */"), ("#if B == 1 /* one", [" ! not fortran", " x = 99"], "*/"),
                                ("#undef X /* gone *", [" * more *"], " */"), ("#define Z /**", ["  call m_0()"], "**/")):
        body = [opener] + mid + [closer, "  x = 1", "  call m_%d()" % (len(PRE) + len(mid) + 4)]
        if opener.startswith(("#ifdef", "#if ")):
            body += ["#else", "  call m_%d()" % (len(PRE) + len(mid) + 6), "#endif"]
        body += ["  ! it's the end", "  y = 2"]
        yield "dircom", "\n".join(PRE + body + POST) + "\n"


def run_shard(ctx):
    b = bounds(ctx.tier)
    work = ctx.subdir("w")
    idx = 0
    for k in range(1, b["K"] + 1):
        for seq in itertools.product(range(len(VOCAB)), repeat=k):
            idx += 1
            if not ctx.mine(idx):
                continue
            body = [VOCAB[i] for i in seq]
            # close any conditional opened by the sequence so that the unit is well-formed
            opens = sum(1 for x in body if x.startswith("#if")) - sum(1 for x in body if x.startswith("#endif"))
            if opens < 0 or any(x.startswith(("#else", "#endif")) for x in body[:1]) and opens <= 0 and not body[0].startswith("#if"):
                continue
            text = "\n".join(PRE + ["  " + x if x and not x.startswith(("#", " ", "\t")) else x for x in body] + ["#endif"] * opens + POST) + "\n"
            check_text(ctx, text, work, "E", DEFSETS[:3])
    for k, (kind, text) in enumerate(fixed_texts()):
        if (k + 3) % ctx.nshards == ctx.shard:
            before = ctx.acc.verdicts["held"] + ctx.acc.verdicts["violated"]
            check_text(ctx, text, work, "F", DEFSETS)
            if ctx.acc.verdicts["held"] + ctx.acc.verdicts["violated"] > before:
                ctx.acc.cells["fixed:" + {"long": "line-longer-than-132-columns", "dircom": "c-comment-from-directive-line-to-later-line",
                                          "litdir": "conditional-inside-continued-literal-with-comments", "litc": "c-comment-opener-inside-literal",
                                          "litblank": "blank-only-piece-of-a-continued-literal"}[kind]] += 1
    rng = ctx.rng("random")
    for i in range(b["random"]):
        body = rand_body(rng)
        if ctx.mine(i):
            check_text(ctx, render(body), work, "R", DEFSETS)


def replay(record, ctx):
    work = ctx.subdir("w")
    check_text(ctx, record["input"]["text"], work, "replay", DEFSETS)
    return {"verdict": "violated" if ctx.acc.verdicts["violated"] else "held", "violations": ctx.acc.violations}
