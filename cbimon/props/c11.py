"""
C11 -- -D/-I/-isystem/-include are extracted from any command line, robustly.

Monitored execution: config.ArgumentParser(argv0).parse_args(argv[1:]) (default
pass), CompileCommand(command=...).arguments, and config.load_database on a
database file (sample).  Oracles: argmodel (left-to-right driver scanner,
validated against `gcc -E -dM -v` on the gcc-valid subset) and /bin/sh word
splitting for the command-string form.
"""

import itertools
import json
import os
import re
import shlex
import shutil
import subprocess

from cbimon import hooks
from cbimon.oracles import argmodel

PROP = "C11"
RULE = ("argv = argv0 + interleaving of modelled options (-D/-I/-isystem/-include, joined and separate spelling, "
        "values with = quotes spaces commas parentheses dashes) with unmodelled flags from a 190-entry catalogue "
        "(arity known) and source files. E: every vector of <=N catalogue/modelled items around a modelled option; "
        "R: vectors of 5..40 arguments. Each vector is also rendered as a shell command string. Non-trivial: >=1 "
        "modelled option and >=1 unmodelled flag; distinct by argv.")
ASSUMPTIONS = ["argmodel is the reference; gcc -E -dM -v agreed with it on every sampled gcc-valid vector",
               "/bin/sh word splitting is the reference for the `command` string form",
               "vectors in which an unmodelled option's value looks like a modelled option are not generated"]
REQUIRED_HOOKS = ["parse_args", "H-gcc-validate", "H-sh-split"]

DEFINES = ["FOO", "FOO=1", "BAR=a b", 'STR="x y"', "F(a,b)=a+b", "NEG=-1", "EMPTY=", "_FORTIFY_SOURCE=2", "X==", "x=y=z",
           "V(...)=__VA_ARGS__", "A=0x10", "Q='c'", "COLOR=#fff", "TAG=a#b#"]
PATHS = ["inc", "/abs/inc", "../rel", "dir with space", ".", "a=b", "a,b", "/usr/include/x86_64-linux-gnu", "inc/", "inc#1", "a,b,c/d"]
FILES = ["pre.h", "/abs/pre.h", "cfg/config.h", "my file.h", "pre#2.h"]
ARGV0 = ["cc", "gcc", "/usr/bin/g++", "clang", "clang++", "icx", "icpx", "nvcc", "/opt/x/mpicc", "ccache"]


def bounds(tier):
    q = tier == "quick"
    return {"enum_len": 2 if q else 3, "random": 3000 if q else 80000, "gcc_validate": 150 if q else 1500,
            "db_cases": 40 if q else 400}


def exhaustive(tier):
    return True


def required_cells(tier):
    cells = []
    for f in argmodel.MODELLED:
        cells += [f"modelled:{f}:joined", f"modelled:{f}:separate"]
    cells += ["prefix:-g*", "prefix:-c*", "prefix:-o*", "prefix:-O*", "prefix:-i*", "prefix:-I*", "prefix:-D*",
              "unmodelled-with-value", "value:space", "value:equals", "value:quote", "value:leading-dash", "command-string",
              "database-file", "database-literal-metacharacters", "database-entry-in-build-directory", "environment:CPATH-set", "database-entry-with-both-forms",
              "front-end:percent-signs", "database-multi-entry", "class:E", "class:R", "each-catalogue-flag-next-to-modelled", "idiom:dash", "idiom:launcher", "database-file:idiom:dash", "database-file:idiom:launcher",
              "database-entry-without-directory-after-one-with", "forced-include-named-like-a-directory-of-the-build-directory"]
    return cells


SPECIAL = [(["gcc", "-E", "-DX", "-o", "-"], "dash"), (["gcc", "-DX", "-c", "a.c", "-o", "-"], "dash"), (["gcc", "-", "-DX"], "dash"),
           (["gcc", "-x", "c", "-", "-DX=1", "-Iinc"], "dash"), (["gcc", "-MF", "-", "-DX", "-MD"], "dash"), (["cc", "-DX", "-o", "-", "-Iinc"], "dash"),
           (["clang", "-o", "-", "-DX"], "dash"), (["gcc", "-DX", "-o", "-", "-o", "-"], "dash"), (["icx", "-include", "pre.h", "-o", "-"], "dash"),
           (["nvcc", "-o", "-", "-DY=2", "-"], "dash"),
           (["ccache", "/usr/bin/c++", "-DFIRST", "-include", "pre.h", "-I/opt/toolchains/gcc", "-DSECOND=2", "-c", "main.cpp"], "launcher"),
           (["sccache", "cc", "-DHOST_COMPILER=/usr/bin/g++", "-Iinc", "-DLAST"], "launcher"),
           (["distcc", "mpicxx", "-DA", "-o", "clang", "-DX"], "launcher"),
           (["ccache", "/opt/cross/bin/arm-gcc-12", "-DA", "-I", "/usr/lib/gcc", "-DX"], "launcher"),
           (["icecc", "c++", "-DB=1", "-isystem", "/opt/nvidia/bin/nvcc", "-DA"], "launcher"),
           (["buildcache", "cc", "-DC", "-include", "gcc", "-DA"], "launcher"),
           (["ccache", "CCACHE_DIR=/tmp/c", "cc", "-DD", "-I", "clang++", "-Iicx", "-I", "icpx", "-DE"], "launcher"),
           (["/usr/lib/ccache/c++", "-DF", "-I/opt/gcc", "g++", "-DG"], "launcher"),
           (["ccache", "gcc", "-DH", "-I", "inc"], "launcher"), (["ccache", "nvcc", "-DI", "-Iclang"], "launcher")]


def modelled_items():
    """(flag, value, joined?) -> list of argv tokens."""
    out = []
    for d in DEFINES:
        out.append((["-D" + d], "-D", True))
        out.append((["-D", d], "-D", False))
    for p in PATHS:
        out.append((["-I" + p], "-I", True))
        out.append((["-I", p], "-I", False))
        out.append((["-isystem" + p], "-isystem", True))
        out.append((["-isystem", p], "-isystem", False))
    for f in FILES:
        out.append((["-include" + f], "-include", True))
        out.append((["-include", f], "-include", False))
    out.append((["-I-weird"], "-I", True))
    out.append((["-DNEG=-1"], "-D", True))
    out.append((["-include", "-dash.h"], "-include", False))
    out.append((["-I", "-x"], "-I", False))
    return out


def unmodelled_items():
    out = []
    for f in argmodel.STANDALONE:
        out.append([f])
    vals = {"-o": "out.o", "-MF": "x.d", "-MT": "x.o", "-MQ": "x.o", "-x": "c++", "-ccbin": "g++", "-Xcompiler": "-fPIC",
            "-arch": "sm_70", "-L": "/usr/lib", "-l": "m", "--param": "max-inline=10", "-U": "OLD", "-imacros": "mac.h",
            "-gencode": "arch=compute_70,code=sm_70", "-Xlinker": "--no-undefined", "-target": "x86_64-linux-gnu"}
    for f, n in argmodel.SEPARATE.items():
        out.append([f, vals.get(f, "val")])
    for s in argmodel.SOURCES:
        out.append([s])
    return out


class Observer:
    def __init__(self):
        from codebasin import config
        self.config = config
        self.calls = 0

    def parse(self, argv):
        self.calls += 1
        # the compiler's environment variables are not options of the command: setting them changes nothing
        for var in ("CPATH", "C_INCLUDE_PATH", "CPLUS_INCLUDE_PATH"):
            if self.calls % 3 == 0:
                os.environ[var] = "/from/environment/include:/opt/env/inc"
            else:
                os.environ.pop(var, None)
        try:
            with hooks.monitor(platform=False, evals=False, assoc=False) as ev:
                cfgs = self.config.ArgumentParser(argv[0]).parse_args(list(argv[1:]))
            d = [c for c in cfgs if c.pass_name == "default"]
            if len(d) != 1:
                return ("exc", f"{len(d)} default passes"), ev
            c = d[0]
            return ("ok", (list(c.defines), list(c.include_paths), list(c.include_files))), ev
        except BaseException as e:
            if isinstance(e, (KeyboardInterrupt,)):
                raise
            return ("exc", f"{type(e).__name__}: {e}"[:200]), None


def implicit_defines(argv0):
    """Options a built-in compiler definition appends (C12 decides those; here they are just added)."""
    base = os.path.basename(argv0)
    return ["__NVCC__", "__CUDACC__"] if base == "nvcc" else []


def in_premise(argv):
    """No unmodelled option takes a value that looks like an option; every separate flag has its value."""
    toks = argv[1:]
    i = 0
    while i < len(toks):
        t = toks[i]
        if t in argmodel.SEPARATE:
            if i + 1 >= len(toks) or (toks[i + 1].startswith("-") and toks[i + 1] not in ("-fPIC", "--no-undefined")):
                return False
            i += 2
            continue
        i += 1
    return True


def shrink_argv(argv, bad, budget=120):
    """Drop tokens (never argv0) while the vector still violates."""
    cur = list(argv)
    changed = True
    while changed and budget > 0:
        changed = False
        for i in range(1, len(cur)):
            for w in (2, 1):
                cand = cur[:i] + cur[i + w:]
                budget -= 1
                if len(cand) >= 1 and in_premise(cand) and bad(cand):
                    cur, changed = cand, True
                    break
            if changed or budget <= 0:
                break
    return cur


def expected(argv, grouped=True):
    """Search directories: all -I (in command-line order) then all -isystem (in command-line order) -- the order a
    compiler searches them (C04); the plain command-line order is accepted too (the statement does not fix the
    interleaving of the two kinds)."""
    d, p, f = argmodel.scan(argv[1:], grouped=grouped)
    return (d + implicit_defines(argv[0]), p, f)


def matches(val, argv):
    return tuple(val) == tuple(expected(argv, True)) or tuple(val) == tuple(expected(argv, False))


def classify(shrunk, observed):
    """Known-finding predicates over the shrunk argv (argv0 first)."""
    toks = shrunk[1:]
    st, val = observed
    msg = val if st == "exc" else ""
    for t in toks:
        if re.fullmatch(r"-g[^\s]+", t) and "ArgumentError" in msg and "-g" in msg:
            return "argparse-abort:-g<suffix>"
        if re.fullmatch(r"-c[^\s]+", t) and "ArgumentError" in msg and "-c" in msg:
            return "argparse-abort:-c<suffix>"
    if "ArgumentError" in msg and "expected one argument" in msg:
        # only when the vector really holds a value-taking option followed by nothing or by a dash-leading token that is
        # neither the bare `-` nor number-like (argparse accepts those as values)
        takes = ("-D", "-I", "-U", "-isystem", "-include", "-o")
        for i, t in enumerate(toks):
            if t in takes and (i + 1 == len(toks) or (toks[i + 1].startswith("-") and toks[i + 1] != "-"
                                                      and not re.fullmatch(r"-\d+|-\d*\.\d+", toks[i + 1]))):
                return "argparse-abort:option-value-missing-or-dash-leading"
    if st == "ok":
        for t in toks:
            if re.match(r"-isystem.+", t) or re.match(r"-include.+", t):
                if t not in argmodel.SEPARATE and t not in argmodel.STANDALONE:
                    return "joined-isystem/include-not-recognised"
        for i, t in enumerate(toks):
            if t in ("-o", "-O") or re.fullmatch(r"-[oO].+", t):
                pass
    return None


def check_argv(ctx, obs, argv, cls, cells_extra=()):
    acc = ctx.acc
    exp = expected(argv)
    (st, val), ev = obs.parse(argv)
    acc.hook("parse_args")
    cells = set(cells_extra)
    cells.add("class:" + cls)
    if "CPATH" in os.environ:
        cells.add("environment:CPATH-set")
    toks = argv[1:]
    has_mod = any(exp)
    has_unmod = any(t in argmodel.SEPARATE or t in argmodel.STANDALONE for t in toks)
    for t in toks:
        for pre in ("-g", "-c", "-o", "-O", "-i", "-I", "-D"):
            if t.startswith(pre) and len(t) > len(pre) and not any(t.startswith(m) for m in argmodel.MODELLED):
                cells.add(f"prefix:{pre}*")
            if t.startswith(pre) and len(t) > len(pre) and pre in ("-I", "-D"):
                cells.add(f"prefix:{pre}*")
        if t in argmodel.SEPARATE:
            cells.add("unmodelled-with-value")
    for v in exp[0] + exp[1] + exp[2]:
        if " " in v:
            cells.add("value:space")
        if "=" in v:
            cells.add("value:equals")
        if '"' in v or "'" in v:
            cells.add("value:quote")
        if v.startswith("-") or "=-" in v:
            cells.add("value:leading-dash")
    nontriv = argv if (has_mod and has_unmod) else None
    ok = st == "ok" and matches(val, argv)
    if ok:
        acc.held(cells=cells, nontrivial=nontriv, cls=cls,
                 sample={"argv": argv, "defines": exp[0], "include_paths": exp[1], "include_files": exp[2]})
        return True

    def signature(state, value):
        return ("exception", str(value).split(":")[0]) if state == "exc" else ("wrong-lists",)

    sig0 = signature(st, val)

    def bad(a):
        # still violating *in the same way* (a shrinker that drifts into another failure would mis-classify)
        (s2, v2), _ = obs.parse(a)
        return not (s2 == "ok" and matches(v2, a)) and signature(s2, v2) == sig0

    sh = shrink_argv(argv, bad)
    (s3, v3), _ = obs.parse(sh)
    mech = classify(sh, (s3, v3))
    acc.violated({"input": {"argv": argv},
                  "witness": {"shrunk_argv": sh, "shrunk_expected": expected(sh), "shrunk_observed": [s3, v3],
                              "argv": argv, "expected": exp, "observed": [st, val]}},
                 mechanism=mech, cells=cells, nontrivial=nontriv, cls=cls)
    return False


def sh_split(command):
    """Word splitting by the real shell (the command string is shell-escaped by definition)."""
    p = subprocess.run(["/bin/sh", "-c", "printf '%s\\0' " + command], capture_output=True, timeout=30)
    if p.returncode != 0:
        return None
    parts = p.stdout.decode("utf-8", "replace").split("\0")
    return parts[:-1]


SAFE = re.compile(r"^[A-Za-z0-9_@%+=:,./ \-\"'()\\#]*$")      # '#' inside a word is an ordinary character for the shell


def render_commands(argv, rng):
    """Shell renderings of argv: shlex.join plus hand-written quoting styles."""
    out = [shlex.join(argv)]

    def dq(a):
        return '"' + a.replace("\\", "\\\\").replace('"', '\\"') + '"'

    def bs(a):
        return re.sub(r"([ \"'()\\])", r"\\\1", a)

    def mixed(a):
        if a.startswith("-D") and "=" in a:
            k, v = a.split("=", 1)
            return k + "=" + dq(v) if v else a
        return dq(a) if re.search(r"[ \"'()\\]", a) else a

    out.append(" ".join(dq(a) for a in argv))
    out.append(" ".join(bs(a) if a else "''" for a in argv))
    out.append("  ".join(mixed(a) if a else '""' for a in argv))
    return out


def command_form(ctx, obs, argv, rng):
    from codebasin import CompileCommand
    acc = ctx.acc
    if not all(SAFE.match(a) for a in argv):
        return
    for cmd in render_commands(argv, rng):
        ref = sh_split(cmd)
        acc.hook("H-sh-split")
        if ref is None:
            acc.excluded("sh-rejects-command")
            continue
        if ref != argv:
            acc.oracle_disagreement({"command": cmd, "sh": ref, "argv": argv})
            continue
        try:
            got = CompileCommand("f.c", command=cmd).arguments
        except Exception as e:
            got = f"{type(e).__name__}: {e}"
        if got == argv:
            acc.held(cells=["command-string"], cls="command")
        else:
            acc.violated({"input": {"command": cmd, "argv": argv},
                          "witness": {"command": cmd, "expected_arguments": argv, "observed_arguments": got}},
                         cells=["command-string"], cls="command")


def gcc_validate(ctx, rng, work):
    """argmodel against gcc on gcc-valid vectors: macros via -dM, search dirs via -v."""
    acc = ctx.acc
    os.makedirs(work, exist_ok=True)
    dirs = ["inc", "inc2", "dir with space", "sub/inc"]
    for d in dirs:
        os.makedirs(os.path.join(work, d), exist_ok=True)
    for f in ["pre.h", "mac.h", "cfg.h"]:
        with open(os.path.join(work, f), "w") as fh:
            fh.write(f"#define FROM_{f[:-2].upper()} 1\n")
    with open(os.path.join(work, "t.c"), "w") as fh:
        fh.write("int x;\n")
    defs = ["FOO", "FOO2=1", "BAR=a b", "NEG=-1", "EMPTY=", "F(a,b)=a+b"]
    n = bounds(ctx.tier)["gcc_validate"]
    for i in range(n):
        argv = []
        for _ in range(rng.randint(2, 9)):
            x = rng.random()
            if x < 0.25:
                d = rng.choice(defs)
                argv += rng.choice([["-D" + d], ["-D", d]])
            elif x < 0.4:
                d = rng.choice(dirs)
                fl = rng.choice(["-I", "-isystem"])
                argv += rng.choice([[fl + d], [fl, d]])
            elif x < 0.5:
                f = rng.choice(["pre.h", "cfg.h"])
                argv += rng.choice([["-include" + f], ["-include", f]])
            elif x < 0.75:
                argv.append(rng.choice(argmodel.GCC_OK_STANDALONE))
            else:
                f = rng.choice(argmodel.GCC_OK_SEPARATE)
                v = {"-x": "c", "-imacros": "mac.h", "-idirafter": "inc2", "-iquote": "inc2", "-U": "ZZZ", "-o": "o.o", "-T": "s.ld"}.get(f, "val")
                argv += [f, v]
        if not ctx.mine(i):
            continue
        # drop -x (changes language of following files) duplicates: keep as is; gcc decides
        cmd = ["gcc"] + argv + ["-E", "-dM", "-v", "-x", "c", "t.c", "-o", "-"]
        p = subprocess.run(cmd, cwd=work, capture_output=True, text=True)
        if p.returncode != 0:
            acc.excluded("gcc-rejects-vector")
            continue
        acc.hook("H-gcc-validate")
        d, paths, files = argmodel.scan(argv)
        macros = {m.group(1) for m in re.finditer(r"^#define (\w+)", p.stdout, re.M)}
        want = {re.match(r"\w+", x).group(0) for x in d}
        user = {x for x in macros if x in {"FOO", "FOO2", "BAR", "NEG", "EMPTY", "F"}}
        # -D and -U are processed in command-line order
        live = set()
        j = 0
        while j < len(argv):
            a = argv[j]
            if a in ("-D", "-U") and j + 1 < len(argv):
                nm = re.match(r"\w+", argv[j + 1]).group(0)
                (live.add if a == "-D" else live.discard)(nm)
                j += 2
            elif a.startswith("-D") or a.startswith("-U"):
                nm = re.match(r"\w+", a[2:]).group(0)
                (live.add if a[1] == "D" else live.discard)(nm)
                j += 1
            elif a in argmodel.SEPARATE or a in argmodel.MODELLED:
                j += 2
            else:
                j += 1
        want = live
        undef = set()
        inc_macros = {"FROM_PRE", "FROM_CFG"} & macros
        want_inc = {"FROM_" + os.path.basename(f)[:-2].upper() for f in files}
        m = re.search(r'#include "\.\.\." search starts here:\n(.*?)#include <\.\.\.> search starts here:\n(.*?)End of search list', p.stderr, re.S)
        ok = (user == want - undef) and inc_macros == want_inc
        if m:
            angle = [x.strip() for x in m.group(2).splitlines() if x.strip()]
            mine = [x.rstrip("/") for x in paths]
            got = [os.path.relpath(x, work) if os.path.isabs(x) and x.startswith(work) else x for x in angle]
            got = [x for x in got if not x.startswith("/usr") and x not in ("inc2",) or x in mine]
            # gcc lists -I dirs first then -isystem, de-duplicated; compare as sets of user dirs
            ok = ok and set(mine) <= set(got) | {"inc2"} and {g for g in got if not g.startswith("/")} - {"inc2"} <= set(mine)
        if not ok:
            acc.oracle_disagreement({"argv": argv, "model": [d, paths, files], "gcc_macros": sorted(user), "gcc_inc": sorted(inc_macros),
                                     "gcc_search": m.group(2) if m else None})
        else:
            acc.held(cells=["gcc-validate"], cls="gcc-validate")


def database_form(ctx, obs, rng, work):
    """arguments-array and command-string entries of a real database file give the same entries."""
    from codebasin import config
    acc = ctx.acc
    n = bounds(ctx.tier)["db_cases"]
    os.makedirs(os.path.join(work, "src"), exist_ok=True)
    with open(os.path.join(work, "src", "a.c"), "w") as f:
        f.write("int a;\n")
    mods = [m for m in modelled_items() if m[0][-1] not in ("-x", "-dash.h")]
    unm = unmodelled_items()
    # relative search directories exist below the root, but not below the build directory half of the entries run in:
    # they are still the build directory's (non-existent) sub-directories
    for p_ in PATHS:
        if not p_.startswith("/") and not p_.startswith(".."):
            os.makedirs(os.path.join(work, p_), exist_ok=True)
    os.makedirs(os.path.join(work, "build"), exist_ok=True)
    for i in range(-len(SPECIAL), n):
        wd = work if i % 2 == 0 else os.path.join(work, "build")
        if i < 0:
            # the hand-written vectors (bare dash, compiler launchers) through a real database file as well
            argv = list(SPECIAL[i][0]) + ["-c", os.path.join(work, "src/a.c")]
            acc.cells["database-file:idiom:" + SPECIAL[i][1]] += 1 if ctx.mine(i) else 0
        else:
            argv = [rng.choice(["gcc", "cc", "clang"])]
            for _ in range(rng.randint(1, 8)):
                argv += rng.choice(mods)[0] if rng.random() < 0.5 else rng.choice(unm)
            argv += ["-c", os.path.join(work, "src/a.c")]
        if not ctx.mine(i) or not all(SAFE.match(a) for a in argv):
            continue
        exp = expected(argv)
        (st0, val0), _ = obs.parse(argv)
        if st0 == "ok" and tuple(val0) == tuple(expected(argv, False)):
            exp = expected(argv, False)
        if st0 != "ok" or not matches(val0, argv):
            continue        # already judged (and classified) by the direct path
        results = []
        for form in ("arguments", "command"):
            entry = {"file": os.path.join(work, "src/a.c"), "directory": wd}
            if form == "arguments":
                entry["arguments"] = argv
            else:
                entry["command"] = shlex.join(argv)
            db = os.path.join(work, f"db-{form}.json")
            with open(db, "w") as f:
                json.dump([entry], f)
            try:
                es = config.load_database(db, work)
                e = [x for x in es if x["pass_name"] == "default"][0]
                results.append((e["defines"], [os.path.relpath(p, wd) if not q.startswith("/") else p
                                               for p, q in zip(e["include_paths"], exp[1])], e["include_files"]))
            except Exception as ex:
                results.append(f"{type(ex).__name__}: {ex}")
        want = (exp[0], [os.path.normpath(p) if not p.startswith("/") else os.path.normpath(p) for p in exp[1]], exp[2])
        if results[0] == results[1] and not isinstance(results[0], str) and \
                (results[0][0], [os.path.normpath(x) for x in results[0][1]], results[0][2]) == want:
            acc.held(cells=["database-file"] + (["database-entry-in-build-directory"] if wd != work else []), cls="database")
        else:
            acc.violated({"input": {"argv": argv, "via": "database"},
                          "witness": {"argv": argv, "arguments_form": results[0], "command_form": results[1], "expected": want}},
                         cells=["database-file"], cls="database")


def multi_entry_databases(ctx, rng, work):
    """Several entries in ONE database (arguments and command forms mixed, including pairs whose printed text coincides
    although their argument vectors differ): every entry must get exactly its own options."""
    from codebasin import config
    acc = ctx.acc
    os.makedirs(os.path.join(work, "src"), exist_ok=True)
    for nm in ("a.c", "b.c", "c.c"):
        with open(os.path.join(work, "src", nm), "w") as f:
            f.write("int x;\n")
    quoted = ['-DGREETING="hi"', "-DMSG='a b'", '-DS="x y"', "-DPLAIN=1", '-DQ=\\"esc\\"']
    n = 60 if ctx.quick else 1500
    for i in range(n):
        entries, wants, fdirs = [], [], []
        k = rng.randint(2, 4)
        base_argv = ["gcc", rng.choice(quoted), "-O2", "-I", "inc"] + rng.choice([[], ["-DX=1"], ["-include", "pre.h"]])
        for j in range(k):
            src = "src/" + rng.choice(["a.c", "b.c", "c.c"])
            mode = rng.choice(["same-text-arguments", "same-text-command", "fresh", "literal-arguments"])
            if mode == "literal-arguments":
                # the arguments form is a vector of literal strings: no tilde, variable or glob expansion applies
                lit = ["~/inc", "$HOME/inc", "${HOME}", "~", "$PWD/../x", "%USERPROFILE%", "inc/$X", "~root", "*", "inc/*.d",
                       "$(pwd)", "`pwd`", "a\\b", "{a,b}"]
                argv = ["gcc", "-I", rng.choice(lit), "-I" + rng.choice(lit), "-isystem", rng.choice(lit),
                        "-D" + rng.choice(["HOME=$HOME", "T=~", "G=*"]), "-include", rng.choice(["~/pre.h", "$HOME/pre.h", "pre.h"]),
                        "-c", src]
                form = "arguments"
                text = shlex.join(argv)
                acc.cells["database-literal-metacharacters"] += 1
            elif mode == "fresh":
                argv = ["gcc"] + [rng.choice(quoted), "-DJ=%d" % j] + ["-c", src]
                form = rng.choice(["arguments", "command"])
                text = shlex.join(argv)
            else:
                argv = base_argv + ["-c", src]
                form = "arguments" if mode == "same-text-arguments" else "command"
                text = " ".join(argv)          # the printed text of the arguments form, used verbatim as command
            e = {"file": src, "directory": work}
            fdir = work
            if i % 3 == 1 and mode != "literal-arguments":
                # the first entry runs in a build directory; later ones name no directory at all (paths relative to the
                # analysis root): every entry's relative paths belong to its OWN directory
                if j == 0:
                    fdir = os.path.join(work, "build")
                    os.makedirs(fdir, exist_ok=True)
                    e = {"file": os.path.join("..", src), "directory": fdir}
                    argv = [a_ if a_ != src else os.path.join("..", src) for a_ in argv]
                    text = text.replace(" " + src, " " + os.path.join("..", src))
                elif j % 2 == 1:
                    e = {"file": src}
                acc.cells["database-entry-without-directory-after-one-with"] += 1
            if form == "arguments":
                e["arguments"] = argv
                real = argv
                if (i + j) % 3 == 0:
                    # an entry may carry both forms (the JSON compilation database format allows it)
                    e["command"] = shlex.join(argv)
                    acc.cells["database-entry-with-both-forms"] += 1
            else:
                e["command"] = text
                real = sh_split(text)
                acc.hook("H-sh-split")
                if real is None:
                    real = None
            entries.append(e)
            wants.append(real)
            fdirs.append(fdir)
        if not ctx.mine(i) or any(w is None for w in wants):
            continue
        db = os.path.join(work, "multi.json")
        with open(db, "w") as f:
            json.dump(entries, f)
        try:
            es = [x for x in config.load_database(db, work) if x["pass_name"] == "default"]
            got = [(x["defines"], x["include_files"], x["include_paths"]) for x in es]
        except Exception as ex:
            got = f"{type(ex).__name__}: {ex}"
        want = [(argmodel.scan(w[1:])[0], argmodel.scan(w[1:])[2],
                 [os.path.abspath(os.path.join(fd_, p_)) for p_ in argmodel.scan(w[1:], True)[1]]) for w, fd_ in zip(wants, fdirs)]
        if got == want:
            acc.held(cells=["database-multi-entry"], cls="database", nontrivial=entries)
        else:
            acc.violated({"input": {"entries": entries}, "witness": {"entries": entries, "expected": want, "observed": got}},
                         cells=["database-multi-entry"], cls="database")


def forced_include_directory_scenario(ctx, work):
    """The build directory holds a DIRECTORY called config.h (a stamp directory); the header of that name lies on the
    search path.  `-include config.h` names the header: a directory is not a file a compiler could read."""
    from codebasin import config
    acc = ctx.acc
    shutil.rmtree(work, ignore_errors=True)
    os.makedirs(os.path.join(work, "build", "config.h"))
    os.makedirs(os.path.join(work, "inc"))
    os.makedirs(os.path.join(work, "src"))
    with open(os.path.join(work, "inc", "config.h"), "w") as f:
        f.write("#define FEATURE 1\n")
    with open(os.path.join(work, "src", "main.c"), "w") as f:
        f.write("int a;\n#ifdef FEATURE\nint f;\n#endif\n")
    wd = os.path.join(work, "build")
    for k, opts in enumerate((["-I../inc", "-include", "config.h"], ["-I", "../inc", "-includeconfig.h"], ["-include", "config.h", "-isystem", "../inc"])):
        argv = ["gcc"] + opts + ["-c", "../src/main.c"]
        for form in ("arguments", "command"):
            e = {"file": "../src/main.c", "directory": wd}
            e[form] = argv if form == "arguments" else shlex.join(argv)
            db = os.path.join(work, "db.json")
            with open(db, "w") as f:
                json.dump([e], f)
            try:
                es = [x for x in config.load_database(db, work) if x["pass_name"] == "default"]
                got = es[0]["include_files"]
            except Exception as ex:
                got = f"{type(ex).__name__}: {ex}"
            cells = ["forced-include-named-like-a-directory-of-the-build-directory"]
            if got == ["config.h"]:
                acc.held(cells=cells, cls="database", nontrivial=(tuple(argv), form))
            else:
                acc.violated({"input": {"entries": [e]}, "witness": {"entries": [e], "expected": ["config.h"], "observed": got}}, cells=cells, cls="database")


def front_end_with_percent_signs(ctx, work):
    """Unknown options, definitions and directories containing `%` through the two front ends that log to cbi.log (their
    warning aggregator sees every message): the run completes and the options take effect."""
    from cbimon import cli
    acc = ctx.acc
    shutil.rmtree(work, ignore_errors=True)
    os.makedirs(os.path.join(work, "inc%d"))
    with open(os.path.join(work, "inc%d", "h.h"), "w") as f:
        f.write("#define FROM_H 1\n")
    with open(os.path.join(work, "a.c"), "w") as f:
        f.write("#include <h.h>\n#if defined(PCT) && defined(FROM_H)\nint yes;\n#else\nint no;\n#endif\n")
    argv = ["clang", "-fprofile-instr-generate=cov-%p.profraw", "-DPCT=100%", "-I", "inc%d", "--weird=%s%n", "-c", "a.c"]
    with open(os.path.join(work, "db.json"), "w") as f:
        json.dump([{"file": "a.c", "directory": work, "arguments": argv}], f)
    with open(os.path.join(work, "analysis.toml"), "w") as f:
        f.write('[platform.p]\ncommands = "db.json"\n')
    problems = []
    rc, out, err = cli.run("codebasin", ["-R", "summary", "analysis.toml"], work)
    if rc != 0 or "Total SLOC: 7" not in out or "Coverage (%): 85.71" not in out:
        problems.append({"kind": "codebasin with % in options", "rc": rc, "stdout": out[-300:], "stderr": err[-200:]})
    rc2, out2, err2 = cli.run("cbi-cov", ["compute", "-S", work, "-o", os.path.join(work, "cov.json"), os.path.join(work, "db.json")], work)
    used = None
    if rc2 == 0:
        used = {e["file"]: sorted(e["used_lines"]) for e in json.load(open(os.path.join(work, "cov.json")))}
    if rc2 != 0 or used.get("a.c") != [1, 2, 3, 4, 6]:
        problems.append({"kind": "cbi-cov with % in options", "rc": rc2, "used": used, "stderr": err2[-300:], "stdout": out2[-200:]})
    acc.hook("cli-runs", 2)
    if problems:
        acc.violated({"input": {"argv": argv, "via": "front ends"}, "witness": {"argv": argv, "problems": problems}}, cells=["front-end:percent-signs"], cls="cli")
    else:
        acc.held(cells=["front-end:percent-signs"], cls="cli", nontrivial=argv)


def run_shard(ctx):
    b = bounds(ctx.tier)
    obs = Observer()
    if ctx.shard == 0:
        front_end_with_percent_signs(ctx, os.path.join(ctx.scratch, "pct"))
    if ctx.shard == 1 % ctx.nshards:
        forced_include_directory_scenario(ctx, os.path.join(ctx.scratch, "fidir"))
    mods = modelled_items()
    unm = unmodelled_items()
    rng = ctx.rng("random")
    crng = ctx.rng(f"cmd{ctx.shard}")
    idx = 0
    # E: every unmodelled item directly before / after every modelled item (length 2), argv0 varied
    for (mt, flag, joined), u in itertools.product(mods, unm):
        for order in (0, 1):
            idx += 1
            if not ctx.mine(idx):
                continue
            argv0 = ARGV0[idx % len(ARGV0)]
            if u[-1] == "-x" or (order == 0 and u[0] in argmodel.SEPARATE and False):
                pass
            argv = [argv0] + (u + mt if order == 0 else mt + u)
            check_argv(ctx, obs, argv, "E", [f"modelled:{flag}:{'joined' if joined else 'separate'}",
                                             "each-catalogue-flag-next-to-modelled"])
    if b["enum_len"] >= 3:
        some_mods = mods[::5]
        for (mt, flag, joined), u1, u2 in itertools.product(some_mods, unm, unm[::3]):
            idx += 1
            if not ctx.mine(idx):
                continue
            argv = [ARGV0[idx % len(ARGV0)]] + u1 + mt + u2
            check_argv(ctx, obs, argv, "E", [f"modelled:{flag}:{'joined' if joined else 'separate'}"])
    # pairs of modelled options (order preservation)
    for (m1, f1, j1), (m2, f2, j2) in itertools.product(mods, mods):
        idx += 1
        if not ctx.mine(idx):
            continue
        check_argv(ctx, obs, ["cc"] + m1 + m2, "E", [])
    # S: hand-written vectors around two idioms: `-` (standard input / output) as a value or a file, and a compiler
    # launcher in front of a compiler the analysis has no definition for, with values whose base name is a compiler's
    for k, (argv, kind) in enumerate(SPECIAL):
        if (k + 5) % ctx.nshards == ctx.shard:
            check_argv(ctx, obs, argv, "S", ["idiom:" + kind])
            command_form(ctx, obs, argv, crng)
    # R: long random vectors
    for i in range(b["random"]):
        argv = [rng.choice(ARGV0)]
        for _ in range(rng.randint(3, 25)):
            x = rng.random()
            if x < 0.45:
                argv += rng.choice(mods)[0]
            else:
                argv += rng.choice(unm)
        if not ctx.mine(i):
            continue
        if check_argv(ctx, obs, argv, "R") and i % 4 == 0:
            command_form(ctx, obs, argv, crng)
    gcc_validate(ctx, ctx.rng("gccv"), os.path.join(ctx.scratch, "gccv"))
    database_form(ctx, obs, ctx.rng("db"), os.path.join(ctx.scratch, "dbw"))
    multi_entry_databases(ctx, ctx.rng("multidb"), os.path.join(ctx.scratch, "dbm"))


def replay(record, ctx):
    obs = Observer()
    argv = record["input"]["argv"]
    (st, val), _ = obs.parse(argv)
    exp = expected(argv)
    ok = st == "ok" and matches(val, argv)
    return {"verdict": "held" if ok else "violated", "expected": exp, "observed": [st, val]}
