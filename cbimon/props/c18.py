"""
C18 -- nothing is dropped silently: unhonoured input is always reported.

Monitored execution: the real `codebasin` CLI (through cbimon.launch, which
records every log record) on forests with a known subset of dangling include
sites, unknown directives, database entries for missing files, unknown
compilers and unknown flags; observed: cbi.log, the H-log records, the
meta-warning totals on stdout.  Oracle for include events: gcc on a twin tree
in which every dangling site includes a site-unique probe header (the probe's
marker count per translation unit is the number of dynamic evaluations).
"""

import collections
import copy
import json
import os
import re
import shutil

from cbimon import cli, hooks, cbi
from cbimon.gen import cprog, forest
from cbimon.oracles import gcc

PROP = "C18"
RULE = ("forest code bases (C04 generator) in which ~30% of include sites (quote, angle, computed; in live and dead "
        "branches; in headers included once or several times; reached by several TUs/platforms; the same missing name "
        "requested from several directories and in both forms) name files that do not exist, plus unknown directives "
        "(#foo, #ident, #assert, #unassert, #sccs, #import) in live and dead code, #line/#warning/#error in dead code, "
        "database entries for missing files, unknown compilers, unknown flags; and fully resolvable controls. "
        "Non-trivial: >=1 unhonoured event expected; distinct by (files, commands, database extras).")
ASSUMPTIONS = ["gcc on the probe twin gives the number of dynamic evaluations of each dangling include site",
               "unknown directives are reported when a file is parsed: exactly one warning per site in live code, at most one "
               "per site in dead code", "one warning per database entry for a missing file / unknown compiler / unknown flags"]
REQUIRED_HOOKS = ["H-log", "cli-runs"]

UNKNOWN = ["#foo", "#foo bar baz", "#ident \"v1\"", "#assert machine(x86)", "#unassert machine", "#sccs \"x\"", "#import \"y.h\"",
           "#elifdef X", "#pragma_once", "#include_next <q.h>", "#definex A 1",
           # names that are prefixes, substrings or case variants of directives the analysis knows or deliberately ignores
           "#warn deprecated", "#err x", "#e", "#lin 3", "#in", "#or", "#errors on", "#warnings off", "#defin X 1", "#undefine X", "#els",
           "#endi", "#if_ 1", "#Line 3", "#ERROR x", "#Pragma once", "#includes <a.h>", "#new", "#war",
           # white space other than blank and tab in front of the #
           "\f#frobnicate", "\v #foo bar", " \f # zap", "\f\v#quux 1"]
BENIGN = ["#line 100", "#line 7 \"f.c\"", "#warning dead code", "#error never reached"]


def bounds(tier):
    return {"cases": 70 if tier == "quick" else 2500, "inproc": 200 if tier == "quick" else 6000}


def required_cells(tier):
    return ["dangling:quote", "dangling:angle", "dangling:computed", "dangling:in-dead-code", "dangling:evaluated>=2",
            "dangling:same-name-two-dirs", "dangling:same-name-both-forms", "dangling:site-reached-by-2+-commands",
            "unknown-directive:live", "unknown-directive:dead", "benign-directive:dead", "db:missing-file", "db:unknown-compiler",
            "db:unknown-flags", "control:no-warnings", "totals-compared", "memo:failure-then-success-elsewhere",
            "db:unknown-flags>80-characters", "dangling:below-depth>=64", "db:unknown-implicit-option-from-user-configuration", "header-is-a-compile-command", "log-file-cannot-be-created:refused", "db:entry-repeated-exactly", "unknown-directive:after-form-feed", "db:missing-forced-include", "db:config-redefinition", "fixed:requested-names-with-blanks-category-words-apostrophes", "fixed:computed-include-of-an-undefined-macro",
            "fixed:directive-on-the-closing-line-of-a-multi-line-comment"]


def is_dangling(name):
    return "nothere" in name or name.startswith("gone/") or "_missing" in name


def inject_directives(rng, case):
    """Insert unknown / benign directives at random places (benign ones only inside `#if 0` dead groups)."""
    for rel, body in case["files"].items():
        if rng.random() < 0.5:
            body.insert(rng.randint(1, len(body)), ["directive", rng.choice(UNKNOWN)])
        if rng.random() < 0.35:
            inner = [["code"], ["directive", rng.choice(UNKNOWN + BENIGN)], ["directive", rng.choice(BENIGN)]]
            body.insert(rng.randint(1, len(body)), ["chain", [["if", "0", inner], ["else", None, [["code"]]]]])
        if rng.random() < 0.3:
            inner = [["code"], ["include", rng.choice("qa"), "nothere.h"]]
            body.insert(rng.randint(1, len(body)), ["chain", [["ifdef", "NEVER_DEFINED", inner]]])


def make_twin(case, base):
    """Probe twin: dangling includes -> site-unique probe headers; unknown directives -> code lines."""
    twin = copy.deepcopy(case)
    probes = {}     # probe id -> (rel, site ordinal)
    pdir = os.path.join(base, "probes")
    os.makedirs(pdir, exist_ok=True)
    counter = [0]

    def newprobe():
        counter[0] += 1
        k = counter[0]
        path = os.path.join(pdir, f"probe_{k}.h")
        with open(path, "w") as f:
            f.write(f"cbi_m_probe_{k};\n")
        return k, path

    def walk(body, rel):
        out = []
        pending = None
        for it in body:
            if it[0] == "include" and it[1] in ("q", "a") and is_dangling(it[2]):
                k, path = newprobe()
                out.append(["include", it[1], path, k])
            elif it[0] == "define" and it[1] == "HDR" and it[2] and is_dangling(it[2]):
                k, path = newprobe()
                out.append(["define", "HDR", it[2][0] + path + it[2][-1]])
                pending = k
            elif it[0] == "include" and it[1] == "m":
                out.append(["include", "m", it[2], pending] if pending else it)
                pending = None
            elif it[0] == "directive":
                out.append(["code"])
            elif it[0] == "chain":
                out.append(["chain", [[kw, e, walk(b, rel)] for kw, e, b in it[1]]])
            else:
                out.append(it)
        return out

    for rel in list(twin["files"]):
        twin["files"][rel] = walk(twin["files"][rel], rel)
    return twin


def site_table(rendered_orig, rendered_twin):
    """{probe id: (rel, line, name, kind)} by aligning original and twin renderings item by item."""
    sites = {}
    for rel, ro in rendered_orig.items():
        rt = rendered_twin[rel]
        last_def = None
        for io, it in zip(ro.items, rt.items):
            if io["kind"] == "def" and io.get("name") == "HDR" and io.get("op") == "define":
                last_def = io.get("value")
            if it["kind"] == "inc" and it.get("site"):
                if io["form"] == "m":
                    v = last_def or ""
                    name, kind = v[1:-1], ("system include" if v.startswith("<") else "user include")
                else:
                    name, kind = io["spelling"], ("system include" if io["form"] == "a" else "user include")
                sites[it["site"]] = (rel, io["lines"][0], name, kind)
    return sites


def directive_sites(rendered_orig, rendered_twin, live_markers):
    """[(rel, line, text, class, live?)] for injected directives; liveness from the twin's marker on that line."""
    out = []
    for rel, ro in rendered_orig.items():
        rt = rendered_twin[rel]
        for io, it in zip(ro.items, rt.items):
            if io["kind"] == "other" and not ro.text_lines[io["lines"][0] - 1].startswith("#pragma once"):
                text = ro.text_lines[io["lines"][0] - 1]
                name = re.match(r"\s*#\s*(\w*)", text).group(1)          # directive names are whole, case-sensitive words
                cls = "benign" if name in ("line", "warning", "error") else "unknown"
                out.append((rel, io["lines"][0], text, cls, it.get("marker") in live_markers))
    return out


def expected_events(case, base, work):
    """Returns dict with expected include-warning multiset, directive sites, cells -- or None if gcc rejects the twin."""
    root, out = forest.paths(base)
    rendered = {rel: cprog.render(body, prefix=forest.fid(rel)) for rel, body in case["files"].items()}
    twin = make_twin(case, work)
    tb = os.path.join(work, "twin")
    shutil.rmtree(tb, ignore_errors=True)
    troot, trend = forest.materialize(twin, tb)
    ok, per_tu, _ = forest.gcc_expect(twin, tb, trend)
    if not ok:
        return None
    sites = site_table(rendered, trend)
    want = collections.Counter()
    cells = set()
    live_all = set()
    reached = collections.Counter()
    for tu, g in zip(twin["tus"], per_tu):
        cnt = collections.Counter(m for m in g["markers"] if m.startswith("cbi_m_probe_"))
        live_all.update(g["markers"])
        for m, n in cnt.items():
            k = int(m.rsplit("_", 1)[1])
            rel, line, name, kind = sites[k]
            want[(rel, line, name, kind)] += n
            reached[k] += 1
            if n >= 2:
                cells.add("dangling:evaluated>=2")
    for k, (rel, line, name, kind) in sites.items():
        cells.add("dangling:" + ("angle" if kind.startswith("system") else "quote"))
        if reached[k] == 0:
            cells.add("dangling:in-dead-code")
        if reached[k] >= 2:
            cells.add("dangling:site-reached-by-2+-commands")
    byname = collections.defaultdict(set)
    for k, (rel, line, name, kind) in sites.items():
        if reached[k]:
            byname[name].add((os.path.dirname(rel), kind))
    for name, s in byname.items():
        if len({d for d, _ in s}) >= 2:
            cells.add("dangling:same-name-two-dirs")
        if len({k for _, k in s}) >= 2:
            cells.add("dangling:same-name-both-forms")
    for rel, ro in rendered.items():
        for it in ro.items:
            if it["kind"] == "inc" and it["form"] == "m":
                cells.add("dangling:computed") if any(is_dangling(str(x.get("value"))) for x in ro.items if x["kind"] == "def" and x.get("name") == "HDR") else None
    dsites = directive_sites(rendered, trend, live_all)
    for rel, line, text, cls, live in dsites:
        if cls == "unknown":
            cells.add("unknown-directive:" + ("live" if live else "dead"))
        else:
            cells.add("benign-directive:dead")
    return {"want": want, "dsites": dsites, "cells": cells, "rendered": rendered}


INC_RE = re.compile(r"^(.*):(\d+): (user include|system include) '(.*)' not found")
DIR_RE = re.compile(r"^(.*):(\d+):(\d+): unrecognized directive '(.*)'")


def judge(case, exp, warnings, root, db_expect):
    """Compare the warnings actually issued with the expected events. Returns problems."""
    problems = []
    realroot = os.path.realpath(root)
    got = collections.Counter()
    dgot = collections.Counter()
    other = []
    dbgot = collections.Counter()
    named = {"unknown-flags": collections.Counter(), "unknown-compiler": collections.Counter(), "missing-file": collections.Counter(),
             "missing-forced-include": collections.Counter()}
    for w in warnings:
        first = w.split("\n")[0]
        m = INC_RE.match(first)
        if m:
            got[(os.path.relpath(m.group(1), realroot), int(m.group(2)), m.group(4), m.group(3))] += 1
            # second line must show the directive
            if "\n" not in w or "#" not in w.split("\n", 1)[1]:
                problems.append({"kind": "include warning without source line", "warning": w})
            continue
        m = DIR_RE.match(first)
        if m:
            dgot[(os.path.relpath(m.group(1), realroot), int(m.group(2)))] += 1
            continue
        if first.startswith("Ignoring non-existent file"):
            dbgot["missing-file"] += 1
            named["missing-file"][first.split(": ", 1)[-1].strip()] += 1
        elif re.match(r"Compiler '.*' not recognized", first):
            dbgot["unknown-compiler"] += 1
            named["unknown-compiler"][re.match(r"Compiler '(.*)' not recognized", first).group(1)] += 1
        elif re.search(r"-include", first) and "not found" in first:
            dbgot["missing-forced-include"] += 1
            mm = re.search(r"'([^']*)'", first)
            named["missing-forced-include"][os.path.basename(mm.group(1)) if mm else first] += 1
        elif re.match(r"compiler (mode|pass) '.*' redefined", first):
            dbgot["config-redefinition"] += 1
        elif first.startswith("Unrecognized arguments"):
            dbgot["unknown-flags"] += 1
            mm = re.match(r"Unrecognized arguments: '(.*)'$", first)
            named["unknown-flags"][tuple(mm.group(1).split()) if mm else (first,)] += 1
        else:
            other.append(first)
    if got != exp["want"]:
        missing = sorted((exp["want"] - got).items())[:6]
        extra = sorted((got - exp["want"]).items())[:6]
        problems.append({"kind": "include-warning multiset", "missing": missing, "extra": extra})
    for rel, line, text, cls, live in exp["dsites"]:
        n = dgot.get((rel, line), 0)
        if cls == "unknown":
            if (live and n != 1) or n > 1:
                problems.append({"kind": "unknown-directive warnings", "site": [rel, line, text], "live": live, "observed": n})
        elif n:
            problems.append({"kind": "warning for #line/#warning/#error", "site": [rel, line, text], "observed": n})
    known_sites = {(rel, line) for rel, line, *_ in exp["dsites"]}
    for site, n in dgot.items():
        if site not in known_sites:
            problems.append({"kind": "directive warning for a site that does not exist", "site": list(site)})
    for k in ("missing-file", "unknown-compiler", "unknown-flags", "missing-forced-include", "config-redefinition"):
        if dbgot.get(k, 0) != db_expect.get(k, 0):
            problems.append({"kind": "database-level warnings", "category": k, "expected": db_expect.get(k, 0), "observed": dbgot.get(k, 0)})
    # each database-level warning names what could not be honoured: every unknown flag, the compiler, the file
    want_names = getattr(db_expect, "names", None)
    if want_names is not None and not problems:
        for k in named:
            if named[k] != want_names[k]:
                problems.append({"kind": "database-level warning does not name what was not honoured", "category": k,
                                 "expected": [list(x) if isinstance(x, tuple) else x for x in sorted(want_names[k].elements())][:6],
                                 "observed": [list(x) if isinstance(x, tuple) else x for x in sorted(named[k].elements())][:6]})
    if other:
        problems.append({"kind": "unexpected warning", "messages": other[:5]})
    return problems


def write_databases(case, base, rng, extras=True, implicit_unknown=False):
    """Databases + analysis.toml; returns (toml name, db_expect counts).
    implicit_unknown: a user configuration (<root>/.cbi/config) gives gcc an implicit option the analysis does not know;
    it is reported with every gcc command, together with that command's own unknown options."""
    root, out = forest.paths(base)
    by = {}
    exp = collections.Counter()
    exp.names = {"unknown-flags": collections.Counter(), "unknown-compiler": collections.Counter(), "missing-file": collections.Counter(),
                 "missing-forced-include": collections.Counter()}
    long_flags = ["--build-system-flag-%02d=value" % k for k in range(9)]      # about 250 characters when joined
    made = []
    for tu in case["tus"]:
        if "dup_of" in tu:
            # the very same entry once more (build systems emit a command once per target that needs it): one more
            # command, one more set of warnings
            plat0, entry0, kinds0 = made[tu["dup_of"]]
            by.setdefault(plat0, []).append(dict(entry0))
            for kind, name in kinds0:
                exp[kind] += 1
                exp.names[kind][name] += 1
            made.append((plat0, entry0, kinds0))
            continue
        kinds = []
        path, defines, search, incs = forest.tu_args(tu, root, out)
        comp = "gcc"
        fl = None
        forced_missing = None
        argv = ["-D" + d for d in defines]
        for k, d in search:
            argv += ["-I", d]
        for f in incs:
            argv += ["-include", f]
        if extras and rng.random() < 0.15:
            # a forced include that names no existing file is input that cannot be honoured, like a dangling #include
            forced_missing = "forced_nothere_%d.h" % len(made)
            argv += ["-include", forced_missing]
        if extras:
            x = rng.random()
            if x < 0.2:
                comp = rng.choice(["mycc", "/opt/bin/zcc", "xlc++"])
                exp["unknown-compiler"] += 1
            elif x < 0.4:
                fl = rng.choice([["-fmystery"], ["--weird=1", "-Wfoo"], ["-qsomething", "--opt=3"], long_flags,
                                 long_flags[:4] + ["-fmystery"]])
                argv += fl
                exp["unknown-flags"] += 1
                exp.names["unknown-flags"][tuple(fl)] += 1
            elif x < 0.5:
                comp = rng.choice(["zcc-9", "/opt/x/bin/qcc"])
                fl = rng.choice([["--mystery-flag"], ["--qopt-one", "--qopt-two"]])
                argv += fl
                exp["unknown-compiler"] += 1
                exp["unknown-flags"] += 1
                exp.names["unknown-flags"][tuple(fl)] += 1
            if exp["unknown-compiler"] and comp != "gcc":
                exp.names["unknown-compiler"][os.path.basename(comp)] += 1
        if implicit_unknown and comp == "gcc":
            mine = tuple(a for a in argv if a.startswith(("-fmystery", "--weird", "-Wfoo", "-qsomething", "--opt=", "--build-system-flag")))
            if mine:
                exp.names["unknown-flags"][mine] -= 1
                if exp.names["unknown-flags"][mine] <= 0:
                    del exp.names["unknown-flags"][mine]
            else:
                exp["unknown-flags"] += 1
            exp.names["unknown-flags"][mine + ("-fmystery-option=7",)] += 1
        argv = [comp] + argv + ["-c", path]
        by.setdefault(tu["platform"], []).append({"file": path, "directory": os.path.dirname(path), "arguments": argv})
        if forced_missing:
            kinds.append(("missing-forced-include", forced_missing))
            exp["missing-forced-include"] += 1
            exp.names["missing-forced-include"][forced_missing] += 1
        if comp != "gcc":
            kinds.append(("unknown-compiler", os.path.basename(comp)))
        final_flags = (tuple(fl or ()) + ("-fmystery-option=7",)) if (implicit_unknown and comp == "gcc") else (tuple(fl) if fl else None)
        if final_flags:
            kinds.append(("unknown-flags", final_flags))
        made.append((tu["platform"], by[tu["platform"]][-1], kinds))
        if extras and rng.random() < 0.25:
            by[tu["platform"]].append({"file": os.path.join(os.path.dirname(path), "generated_%d.c" % len(by[tu["platform"]])),
                                       "directory": os.path.dirname(path), "arguments": ["gcc", "-c", "generated.c"]})
            exp["missing-file"] += 1
            exp.names["missing-file"][by[tu["platform"]][-1]["file"]] += 1
    os.makedirs(os.path.join(base, "dbs"), exist_ok=True)
    lines = []
    for p, entries in by.items():
        dbp = os.path.join(base, "dbs", forest.dbname(p))
        with open(dbp, "w") as f:
            json.dump(entries, f)
        lines.append(f"[platform.\"{p}\"]\ncommands = \"{dbp}\"\n")
    with open(os.path.join(root, "analysis.toml"), "w") as f:
        f.write("\n".join(lines))
    shutil.rmtree(os.path.join(root, ".cbi"), ignore_errors=True)
    if implicit_unknown:
        os.makedirs(os.path.join(root, ".cbi"))
        with open(os.path.join(root, ".cbi", "config"), "w") as f:
            f.write('[compiler.gcc]\noptions = ["-DFROM_CONFIG=1", "-fmystery-option=7"]\n')
            if len(case["tus"]) % 2 == 0:
                # the user configuration also redefines a built-in mode: one warning while the compiler definitions are
                # loaded -- counted, logged and reported like every other warning of the run
                f.write('\n[[compiler.gcc.modes]]\nname = "openmp"\ndefines = ["_OPENMP=201511"]\n')
                exp["config-redefinition"] += 1
    return "analysis.toml", exp


def check_case(ctx, case, base, cls, via_cli, rng):
    acc = ctx.acc
    shutil.rmtree(base, ignore_errors=True)
    root, rendered = forest.materialize(case, base)
    exp = expected_events(case, base, os.path.join(base, "work"))
    if exp is None:
        acc.excluded("gcc-rejects-probe-twin", cls=cls)
        return
    cells = set(exp["cells"])
    if any(tu["file"].endswith(".h") for tu in case["tus"]):
        cells.add("header-is-a-compile-command")
    if any("dup_of" in tu for tu in case["tus"]):
        cells.add("db:entry-repeated-exactly")
    if case.get("category_words") and any("include.h" in k[2] for k, n in exp["want"].items() if n):
        cells.add("dangling:name-with-blanks-and-category-words" + (":cli" if via_cli else ""))
    if case.get("category_words") and any("'" in k[2] for k, n in exp["want"].items() if n):
        cells.add("dangling:name-with-apostrophe" + (":cli" if via_cli else ""))
    if any(s_[2].lstrip(" ")[:1] in "\f\v" and s_[3] == "unknown" and s_[4] for s_ in exp["dsites"]):
        cells.add("unknown-directive:after-form-feed")
    # one command-line case in 8 runs where the log file cannot be created (cbi.log is a directory): the tool may refuse to
    # run, but if it runs, its totals are judged like any other run's
    blocked_log = via_cli and rng.random() < 0.12
    if blocked_log:
        os.makedirs(os.path.join(root, "cbi.log"), exist_ok=True)
    implicit_unknown = via_cli and cls != "control" and rng.random() < 0.35
    toml, db_expect = write_databases(case, base, rng, extras=(cls != "control"), implicit_unknown=implicit_unknown)
    if implicit_unknown and any("-fmystery-option=7" in k for k in db_expect.names["unknown-flags"]):
        cells.add("db:unknown-implicit-option-from-user-configuration")
    for k, v in db_expect.items():
        if v:
            cells.add("db:" + k)
    if any(len(" ".join(fl)) > 80 for fl in db_expect.names["unknown-flags"]):
        cells.add("db:unknown-flags>80-characters")
    deep = [r for r in case["files"] if re.search(r"/dp\d+\.h$", r)]
    if len(deep) >= 64 and any(rel in deep and int(re.search(r"dp(\d+)", rel).group(1)) >= 64 and n for (rel, line, name, kind), n in exp["want"].items()):
        cells.add("dangling:below-depth>=64")
    n_expected = sum(exp["want"].values()) + sum(1 for s in exp["dsites"] if s[3] == "unknown" and s[4]) + sum(db_expect.values())
    if n_expected == 0 and not any(s[3] == "unknown" for s in exp["dsites"]):
        cells.add("control:no-warnings")
    problems = []
    try:
        if via_cli:
            dump = os.path.join(base, "dump.json")
            # verbosity options change what is echoed to the terminal, never what is logged or counted
            verb = rng.choice([[], [], ["-v"], ["-q"], ["-q", "-q"], ["--debug"], ["-v", "-v"], ["--verbose"], ["--quiet"]])
            if verb:
                cells.add("verbosity:" + verb[0])
            rc, out, err = cli.run("codebasin", verb + ["-R", "summary", toml], root, launch={"dump": dump})
            acc.hook("cli-runs")
            if rc != 0 and blocked_log:
                acc.held(cells={"log-file-cannot-be-created:refused"}, cls=cls)
                return
            if blocked_log:
                cells.add("log-file-cannot-be-created:ran")
            if rc != 0:
                problems.append({"kind": "cli failed", "rc": rc, "stdout": out[-400:], "stderr": err[-400:]})
                warnings = []
            else:
                d = json.load(open(dump))
                # the aggregator's own meta-warnings are logged through the same logger after the analysis
                warnings = [m for lv, name, m in d["logs"] if lv == "WARNING" and not re.match(r"^\d+ (warnings generated|user include files|system include files)", m)]
                acc.hook("H-log", len(d["logs"]))
                # cbi.log
                with open(os.path.join(root, "cbi.log")) as f:
                    log_text = f.read()
                n_log = len(re.findall(r"^warning: ", log_text, re.M))
                metas = {"all": re.search(r"(\d+) warnings generated during preprocessing", out),
                         "user": re.search(r"(\d+) user include files could not be found", out),
                         "system": re.search(r"(\d+) system include files could not be found", out)}
                metas = {k: int(v.group(1)) if v else 0 for k, v in metas.items()}
                kinds_ = [m_.group(3) for m_ in (INC_RE.match(w.split("\n")[0]) for w in warnings) if m_]
                n_user = kinds_.count("user include")
                n_sys = kinds_.count("system include")
                cells.add("totals-compared")
                if metas != {"all": len(warnings), "user": n_user, "system": n_sys}:
                    problems.append({"kind": "printed totals differ from warnings issued", "printed": metas,
                                     "issued": {"all": len(warnings), "user": n_user, "system": n_sys}})
                # cbi.log holds the analysis warnings plus the meta-warnings themselves
                n_meta_lines = sum(1 for v in metas.values() if v)
                if n_log != len(warnings) + n_meta_lines:
                    problems.append({"kind": "cbi.log warning count", "expected": len(warnings) + n_meta_lines, "observed": n_log})
        else:
            from codebasin import config
            with hooks.monitor(platform=False, evals=False, assoc=False) as ev:
                conf = {}
                with open(os.path.join(root, toml), "rb") as f:
                    import tomllib
                    t = tomllib.load(f)
                for p, v in t["platform"].items():
                    conf[p] = config.load_database(v["commands"], root)
                cbi.run_find(root, conf)
            warnings = ev.warnings()
            acc.hook("H-log", len(ev.logs))
        problems += judge(case, exp, warnings, root, db_expect)
    except Exception as e:
        import traceback
        problems.append({"kind": "exception", "observed": f"{type(e).__name__}: {e}", "tb": traceback.format_exc()[-500:]})
    nontriv = {"files": {k: str(v) for k, v in case["files"].items()}, "tus": case["tus"], "db": dict(db_expect)} if n_expected else None
    if problems:
        acc.violated({"input": {"files": case["files"], "tus": case["tus"]},
                      "witness": {"problems": problems[:6], "commands": case["tus"],
                                  "files": {rel: rendered[rel].text for rel in list(rendered)[:8]}}},
                     mechanism=None, cells=cells, nontrivial=nontriv, cls=cls)
    else:
        acc.held(cells=cells, nontrivial=nontriv, cls=cls,
                 sample={"expected_include_warnings": [[list(k), v] for k, v in list(exp["want"].items())[:6]],
                         "directive_sites": [list(s) for s in exp["dsites"][:6]], "database_events": dict(db_expect)})


def fixed_cli_scenarios(ctx, base):
    """Two hand-written command-line runs.
      N  four dangling includes whose requested names hold blanks, the words the totals are keyed on, and apostrophes:
         one warning each, naming file, line, requested name and form; totals 2 user / 2 system / 4 in all;
      M  `#include PLATFORM_HEADER` where the macro is not defined for the platform (nothing a compiler accepts): the
         run may stop with an error, or warn with file and line -- it must not finish silently."""
    acc = ctx.acc
    for name in ("N", "M", "L"):
        d = os.path.join(base, "fixedcli" + name)
        shutil.rmtree(d, ignore_errors=True)
        os.makedirs(d)
        if name == "L":
            # the directive stands on the line on which a multi-line comment ENDS: that line is its line
            text = "/* c\nmore */ #include \"nothere_l.h\"\nint a;\n#if 0 /* x\ny */ || 1\n#include <nothere_m.h>\n#endif\n  /* z\n */ #bogus directive\n" \
                   "/*\n\n\n*/ /* */ #  include \"nothere_n.h\"\n"
        elif name == "N":
            text = '#include "nothere system include.h"\n#include <nothere user include.h>\n#include "nothere it\'s.h"\n#include <o\'neil\'s nothere.h>\nint a;\n'
        else:
            text = "int a;\n#include PLATFORM_HEADER\nint b;\n"
        with open(os.path.join(d, "a.c"), "w") as f:
            f.write(text)
        with open(os.path.join(d, "db.json"), "w") as f:
            json.dump([{"file": "a.c", "directory": d, "arguments": ["gcc", "-c", "a.c"]}], f)
        with open(os.path.join(d, "analysis.toml"), "w") as f:
            f.write('[platform.p]\ncommands = "db.json"\n')
        dump = os.path.join(base, "dump-fixed.json")
        if os.path.exists(dump):
            os.unlink(dump)
        rc, out, err = cli.run("codebasin", ["-R", "summary", "analysis.toml"], d, launch={"dump": dump})
        acc.hook("cli-runs")
        problems = []
        logs = json.load(open(dump))["logs"] if os.path.exists(dump) else []
        warnings_ = [m for lv, nm, m in logs if lv == "WARNING" and not re.match(r"^\d+ (warnings generated|user include files|system include files)", m)]
        if name == "L":
            want = collections.Counter({("a.c", 2, "nothere_l.h", "user include"): 1, ("a.c", 6, "nothere_m.h", "system include"): 1, ("a.c", 13, "nothere_n.h", "user include"): 1})
            got, dgot = collections.Counter(), collections.Counter()
            for w in warnings_:
                m = INC_RE.match(w.split("\n")[0])
                if m:
                    got[(os.path.relpath(m.group(1), os.path.realpath(d)), int(m.group(2)), m.group(4), m.group(3))] += 1
                m = DIR_RE.match(w.split("\n")[0])
                if m:
                    dgot[int(m.group(2))] += 1
            if got != want:
                problems.append({"kind": "include warnings name another line than the one the directive stands on", "missing": sorted((want - got).items()), "extra": sorted((got - want).items())})
            if dgot != collections.Counter({9: 1}):
                problems.append({"kind": "unrecognized-directive warning names another line than the one the directive stands on", "expected": {9: 1}, "observed": dict(dgot)})
            acc.cells["fixed:directive-on-the-closing-line-of-a-multi-line-comment"] += 1
        elif name == "N":
            want = collections.Counter({("a.c", 1, "nothere system include.h", "user include"): 1, ("a.c", 2, "nothere user include.h", "system include"): 1,
                                        ("a.c", 3, "nothere it's.h", "user include"): 1, ("a.c", 4, "o'neil's nothere.h", "system include"): 1})
            got = collections.Counter()
            for w in warnings_:
                m = INC_RE.match(w.split("\n")[0])
                if m:
                    got[(os.path.relpath(m.group(1), os.path.realpath(d)), int(m.group(2)), m.group(4), m.group(3))] += 1
            if rc != 0:
                problems.append({"kind": "cli failed", "stderr": err[-300:]})
            if got != want:
                problems.append({"kind": "include warnings", "missing": sorted((want - got).items()), "extra": sorted((got - want).items())})
            metas = {k: (int(v.group(1)) if v else 0) for k, v in (("all", re.search(r"(\d+) warnings generated during preprocessing", out)),
                                                                    ("user", re.search(r"(\d+) user include files could not be found", out)),
                                                                    ("system", re.search(r"(\d+) system include files could not be found", out)))}
            if metas != {"all": 4, "user": 2, "system": 2}:
                problems.append({"kind": "printed totals", "expected": {"all": 4, "user": 2, "system": 2}, "observed": metas})
            acc.cells["fixed:requested-names-with-blanks-category-words-apostrophes"] += 1
        else:
            said = [m for lv, nm, m in logs if lv in ("WARNING", "ERROR", "CRITICAL")] + [ln for ln in (out + err).splitlines() if re.match(r"^(error|warning):", ln)]
            if rc == 0 and not any("a.c" in m or "PLATFORM_HEADER" in m or "Invalid path" in m for m in said):
                problems.append({"kind": "an #include that could not be honoured left no trace", "rc": rc, "messages": said[:5], "stdout": out[-200:]})
            acc.cells["fixed:computed-include-of-an-undefined-macro:" + ("refused" if rc != 0 else "warned")] += 1
            acc.cells["fixed:computed-include-of-an-undefined-macro"] += 1
        case = {"scenario": "fixed-cli-" + name, "text": text}
        if problems:
            acc.violated({"input": case, "witness": dict(case, problems=problems)}, cells=set(), cls="fixed")
        else:
            acc.held(cells=set(), cls="fixed", nontrivial=case)


def memo_case():
    """A memoised failure followed by a success for the same spelling from elsewhere."""
    files = {
        "src/t0.c": [["code"], ["include", "q", "only_in_inc_dir.h"], ["code"], ["include", "q", "sub/u.h"], ["code"],
                     ["include", "q", "only_in_inc_dir.h"], ["code"]],
        "src/sub/u.h": [["code"], ["include", "q", "only_in_inc_dir.h"], ["code"]],
        "src/sub/only_in_inc_dir.h": [["code"]],
    }
    return {"files": files, "tus": [{"platform": "p0", "file": "src/t0.c", "defines": [], "search": [], "includes": []}]}


def run_shard(ctx):
    b = bounds(ctx.tier)
    base = os.path.join(ctx.scratch, "c18")
    rng = ctx.rng("cases")
    idx = 0
    for i in range(b["cases"] + b["inproc"]):
        via_cli = i < b["cases"]
        control = rng.random() < 0.2
        # one case in 6: the dangling includes sit at the bottom of an include chain 40..100 levels deep
        case = forest.gen(rng, n_tus=rng.randint(1, 4), missing=0.0 if control else 0.3, findable=True,
                          deep=[40, 70, 100][(i // 6) % 3] if i % 6 == 2 else 0)
        for tu in case["tus"]:
            tu["search"] = [["I", d] for _, d in tu["search"]]
        if not control:
            inject_directives(rng, case)
        if i % 5 == 3:
            # the first command appears twice, exactly repeated
            case["tus"].append(dict(case["tus"][0], dup_of=0))
        if i % 4 == 1:
            # a header that is also a compile command of its own (precompiled header): everything it cannot honour is
            # reported for that command too
            hs = sorted(r for r, b_ in case["files"].items() if r.endswith(".h") and not r.startswith("@") and "'once'" not in str(b_)
                        and os.path.basename(r) not in ("pre.h", "rep.h", "dispatch.h"))
            if hs:
                h = hs[i % len(hs)]
                case["tus"].append(dict(case["tus"][0], file=h, includes=[]))
        if i % 4 == 3:
            # requested names that hold blanks and the very words the end-of-run totals are keyed on: a quote include of
            # "... system include.h" is one USER include warning, an angle include of <... user include.h> one SYSTEM one
            def rename(body):
                for it in body:
                    if it[0] == "include" and it[1] in ("q", "a") and it[2] == "nothere.h":
                        if i % 8 == 3:
                            it[2] = "nothere system include.h" if it[1] == "q" else "nothere user include.h"
                        else:
                            it[2] = "nothere it's.h" if it[1] == "q" else "nothere o'neil's.h"        # apostrophes in the requested name
                        case["category_words"] = True
                    elif it[0] == "chain":
                        for _, _, sub in it[1]:
                            rename(sub)
            for body_ in case["files"].values():
                rename(body_)
        crng_seed = rng.random()
        if ctx.mine(i):
            import random as _r
            check_case(ctx, case, base, "control" if control else ("cli" if via_cli else "inproc"), via_cli, _r.Random(crng_seed))
    if ctx.shard == 1 % ctx.nshards:
        fixed_cli_scenarios(ctx, base)
    if ctx.shard == 0:
        import random as _r
        mc = memo_case()
        # rewrite: the name must be dangling from src/ but found from src/sub/
        mc["files"]["src/t0.c"][1][2] = "nothere.h"
        mc["files"]["src/t0.c"][5][2] = "nothere.h"
        mc["files"]["src/sub/u.h"][1][2] = "nothere.h"
        mc["files"]["src/sub/nothere.h"] = mc["files"].pop("src/sub/only_in_inc_dir.h")
        check_memo(ctx, mc, base)
    shutil.rmtree(base, ignore_errors=True)


def check_memo(ctx, case, base):
    """`nothere.h` is missing beside src/t0.c but exists beside src/sub/u.h: 2 warnings, and the header is used."""
    acc = ctx.acc
    shutil.rmtree(base, ignore_errors=True)
    root, rendered = forest.materialize(case, base)
    with hooks.monitor(platform=False, evals=False, assoc=False) as ev:
        state, _ = cbi.run_find(root, forest.cbi_configuration(case, base))
    ws = [w for w in ev.warnings() if INC_RE.match(w.split("\n")[0])]
    used = cbi.used_lines(state, os.path.join(root, "src/sub/nothere.h"), "p0") if state.get_tree(os.path.join(root, "src/sub/nothere.h")) else set()
    ok = len(ws) == 2 and used == {1}
    if ok:
        acc.held(cells=["memo:failure-then-success-elsewhere"], cls="memo")
    else:
        acc.violated({"input": case, "witness": {"kind": "memoised failure", "warnings": ws, "header_lines_used": sorted(used)}},
                     cells=["memo:failure-then-success-elsewhere"], cls="memo")


def replay(record, ctx):
    return {"verdict": "unknown", "note": "re-run ./check C18; the witness holds files and commands"}
