"""
C06 -- every counted line lands in exactly one platform set; all reports agree.

Monitored execution: the same generated code base is analysed in-process
(per-line attribution, get_setmap) and by the real front ends `codebasin -R
summary` (+ clustering on a sample), `cbi-tree` (plain, --prune, -L 1..3) and
`cbi-cov compute` (once per platform); stdout / JSON are parsed back.
Oracle: exact recomputation from the per-line attribution (integers and
Fractions), hashlib for ids; H-inv structural invariants on ParserState.
"""

import hashlib
import json
import math
import os
import shutil
from fractions import Fraction

from cbimon import cbi, cli
from cbimon.gen import forest
from cbimon.props import c07, c08

PROP = "C06"
RULE = ("code base = C04-style forest (1..4 commands over 0..4 platforms) plus unused files in nested directories "
        "(C, C++ header, CUDA, free-form Fortran, assembly; directory names containing dots, a CRLF file, a file with non-UTF-8 bytes, a 1500-line file), file symlinks to members and to outside files. "
        "Compared: in-process attribution vs summary table / percentages / metrics / Total SLOC vs cbi-tree rows "
        "(plain, --prune, -L 1..3) vs coverage.json per platform. Non-trivial: >=2 platform-set rows and >=1 unused "
        "line; distinct by (files, commands, links).")
ASSUMPTIONS = ["percentages / metrics are compared at printed precision (+-0.005 for rounding of the float)",
               "the per-line attribution obtained in-process is the reference the reports must agree with (C01/C04 decide its correctness)"]
REQUIRED_HOOKS = ["cli-runs", "H-inv"]

EXTRA = {
    "extra/u.c": "int unused;\n/* c */\n#ifdef X\nint x;\n#endif\n",
    "extra/deep/v.hpp": "// only comment\nint v;\n\nint w;\n",
    "extra/deep/er/k.cu": "__global__ void k();\n#if 0\nint dead;\n#endif\n",
    "extra/f.f90": "program p\n! comment\n  print *, 'a' ! t\n#ifdef Y\n  print *, 'y'\n#endif\nend program p\n",
    "extra/a.s": "# comment\nmov r0, r1 ; c\n// c\nret\n",
    "extra/empty.h": "",
    # directory names with dots and dashes; CRLF line ends; bytes that are not UTF-8 (texts are written as latin-1)
    "extra/lib-1.2/w.c": "int w1;\r\n/* c */\r\nint w2;\r\n#if 0\r\nint w3;\r\n#endif\r\n",
    "extra/v2.0/d.ir/l1.h": "int caf\xe9; // \xe9\n#ifdef L\nint l; /* \xff */\n#endif\n",
    "extra/v2.0/noext.d/x.cc": "int x;\n",
    # more than 1000 lines in one file: cbi-tree switches to the 1.2k notation
    "extra/big.c": "".join("int b%d;\n" % i if i % 5 else "// c\n" for i in range(1500)),
    # more than a MiB of text (a generated table): the content hash covers all of it
    "extra/huge_table.h": "/* " + "generated " * 120000 + "*/\nint first;\n" + "// pad\n" * 2000 + "int last;\n",
}


def bounds(tier):
    return {"cases": 48 if tier == "quick" else 1500, "clustering": 4 if tier == "quick" else 40}


def required_cells(tier):
    return ["row:empty-set", "platforms>=3", "platforms=0", "platforms=1", "dir-levels>=2", "pruned-file", "symlink-row",
            "summary", "tree", "tree:prune", "tree:-L", "cov", "clustering", "fortran-file", "asm-file",
            "dotted-directory", "crlf-file", "non-utf8-file", "sloc>=1000",
            "report-selection:-R", "report-selection:--report", "report-selection:default-all", "report-selection:-R-all",
            "exclude:analysis-file-plus-command-line", "hard-link", "cov:-S-through-symlink", "file>1MiB", "analysis-file:no-platform-table",
            "analysis-file:empty-platform-table", "directory-name-starting-with-dot", "link-target-through-directory-link-and-dotdot",
            "cov:all-platforms-in-one-database", "unused-byte-identical-copy-of-a-compiled-file"]


def close2(printed, exact):
    """printed: string with 2 decimals (or nan); exact: Fraction or None."""
    if exact is None:
        return printed.strip() == "nan"
    try:
        v = float(printed)
    except ValueError:
        return False
    return abs(v - float(exact)) <= 0.005 + 1e-9


def gen_case(rng):
    nplat = rng.choice([0, 1, 1, 2, 2, 3, 4])
    case = forest.gen(rng, n_tus=max(1, rng.randint(nplat, nplat + 2)), n_platforms=max(1, nplat), findable=True)
    for tu in case["tus"]:
        tu["search"] = [["I", d] for _, d in tu["search"]]
    if nplat == 0:
        case["tus"] = []
    extra = {k: v for k, v in EXTRA.items() if rng.random() < 0.7}
    links = {}
    members = [r for r in case["files"]]
    if rng.random() < 0.6:
        t = rng.choice(members)
        links["extra/deep/link_" + os.path.basename(t)] = os.path.relpath(t, "extra/deep")
    if rng.random() < 0.3:
        links["extra/outlink.h"] = "@out/far.h"
    if len(case["files"]) % 2 == 0:
        # source files below directories whose names start with a dot (.ci, .github): ordinary members for every report
        extra[".ci/smoke/check.c"] = "int check;\n#ifdef X\nint cx;\n#endif\n// c\n"
        extra["extra/.hidden.d/probe.h"] = "int probe;\nint probe2;\n"
    if len(case["files"]) % 3 != 1:
        # a relative link whose target text goes through a directory link and then `..`: build/u.c names vendor/util.c
        extra["vendor/util.c"] = "int util1;\nint util2;\n/* c */\nint util3;\n"
        extra["vendor/pkg/p.h"] = "int p;\n"
        links["build/cur"] = "../vendor/pkg"
        links["build/u.c"] = "cur/../util.c"
    if case["tus"] and len(case["files"]) % 2 == 1:
        # the first command's file is compiled once more, by the LAST platform, with the same definitions but the search
        # directories in the opposite order (another command, possibly other headers); and a byte-identical copy of that
        # file, which nothing compiles, sits elsewhere in the code base
        tu0 = case["tus"][0]
        plats_ = sorted({t["platform"] for t in case["tus"]})
        case["tus"].append(dict(tu0, platform=plats_[-1], search=list(reversed(tu0["search"]))))
        case["twin_of"] = tu0["file"]
    case["extra"] = extra
    case["links"] = links
    # a second directory entry (hard link) for an unused file: two names, two files of the code base
    case["hard"] = {"extra/deep/hl_u.c": "extra/u.c"} if "extra/u.c" in extra and rng.random() < 0.6 else {}
    return case


def materialize(case, base):
    root, rendered = forest.materialize(case, base)
    r, out = forest.paths(base)
    for rel, text in case["extra"].items():
        p = os.path.join(root, rel)
        os.makedirs(os.path.dirname(p), exist_ok=True)
        with open(p, "w", encoding="latin-1", newline="") as f:
            f.write(text)
    with open(os.path.join(out, "far.h"), "w") as f:
        f.write("int far;\n")
    if case.get("twin_of") and not case["twin_of"].startswith("@out/"):
        os.makedirs(os.path.join(root, "extra", "copies"), exist_ok=True)
        shutil.copyfile(os.path.join(root, case["twin_of"]), os.path.join(root, "extra", "copies", "unused_twin" + os.path.splitext(case["twin_of"])[1]))
    for l, t in case["links"].items():
        p = os.path.join(root, l)
        os.makedirs(os.path.dirname(p), exist_ok=True)
        if not os.path.lexists(p):
            os.symlink(forest.abspath(root, out, t) if t.startswith("@out/") else t, p)
    for l, t in case.get("hard", {}).items():
        p = os.path.join(root, l)
        os.makedirs(os.path.dirname(p), exist_ok=True)
        if not os.path.lexists(p):
            os.link(os.path.join(root, t), p)
    return root, rendered


def inv_check(state):
    """H-inv: structural invariants of ParserState after find()."""
    probs = []
    if set(state.trees) != set(state.maps):
        probs.append("trees/maps key sets differ")
    return probs


def file_setmaps(state, cb, platforms):
    """{listed path (as enumerated): (is_symlink, {frozenset: n}, {line: frozenset})}"""
    res = {}
    for fn in cb:
        lines, dup = cbi.per_line(state, fn)
        sm = {}
        for ln, ps in lines.items():
            sm[ps] = sm.get(ps, 0) + 1
        res[fn] = (os.path.islink(fn), sm, lines, dup)
    return res


def add(sm, other):
    for k, v in other.items():
        sm[k] = sm.get(k, 0) + v


def expected_tree(root, fsm, all_platforms, prune=False, levels=None):
    """Expected rows keyed by path relative to root ('' = root): (platform letters, sloc, cov, avg, is_link)."""
    plats = sorted(all_platforms)
    nodes = {"": {}}
    listed = []
    for fn, (is_link, sm, lines, dup) in fsm.items():
        if prune and not any(k for k in sm):
            continue
        listed.append(fn)
        rel = os.path.relpath(fn, root)
        parts = rel.split("/")
        for i in range(len(parts) - 1):
            d = "/".join(parts[: i + 1])
            nodes.setdefault(d, {})
        if not is_link:
            add(nodes[""], sm)
            for i in range(len(parts) - 1):
                add(nodes["/".join(parts[: i + 1])], sm)
    rows = {}

    def row(sm, is_link=False):
        used = set()
        for k in sm:
            used |= set(k)
        letters = "".join("ABCDEFGH"[i] if p in used else "-" for i, p in enumerate(plats))
        total = sum(sm.values())
        cov = c07.ref_coverage(sm, plats) if plats else None
        avg = c07.ref_avg_coverage(sm, plats) if plats else None
        return (letters, total, cov, avg, is_link)

    # root platforms are those of the (possibly pruned) root setmap
    root_used = set()
    for k in nodes[""]:
        root_used |= set(k)
    plats = sorted(root_used)
    for d, sm in nodes.items():
        rows[d] = row(sm)
    for fn in listed:
        is_link, sm, lines, dup = fsm[fn]
        rows[os.path.relpath(fn, root)] = row(sm, is_link)
    if levels:
        rows = {k: v for k, v in rows.items() if (0 if k == "" else k.count("/") + 1) <= levels}
    return rows, plats


def tree_rows_by_path(rows):
    out = {}
    stack = []
    for r in rows:
        name = r["name"].rstrip("/")
        if r["depth"] == 0:
            stack = [""]
            out[""] = r
            continue
        stack = stack[: r["depth"]]
        path = "/".join([s for s in stack[1:]] + [name])
        out[path] = r
        stack.append(name)
    return out


def compare_tree(tag, out, root, fsm, all_platforms, prune=False, levels=None):
    problems = []
    legend, rows = cli.parse_tree(out)
    got = tree_rows_by_path(rows)
    want, plats = expected_tree(root, fsm, all_platforms, prune, levels)
    if set(got) != set(want):
        problems.append({"kind": f"{tag}: rows listed", "missing": sorted(set(want) - set(got))[:8], "extra": sorted(set(got) - set(want))[:8]})
        return problems
    if [legend.get(c) for c in "ABCDEFGH"[: len(plats)]] != plats:
        problems.append({"kind": f"{tag}: legend", "expected": plats, "observed": legend})
    for path, (letters, total, cov, avg, is_link) in want.items():
        r = got[path]
        if r["platforms"] != letters:
            problems.append({"kind": f"{tag}: platforms column", "path": path, "expected": letters, "observed": r["platforms"]})
        if total >= 1000:
            # human-readable notation: one decimal of thousands
            if not (r["sloc"].endswith("k") and total < 10 ** 6 and r["sloc"] == "%.1fk" % (total / 1000)):
                problems.append({"kind": f"{tag}: SLOC column (k notation)", "path": path, "expected": "%.1fk" % (total / 1000), "observed": r["sloc"]})
        elif r["sloc"] != str(total):
            problems.append({"kind": f"{tag}: SLOC column", "path": path, "expected": total, "observed": r["sloc"]})
        if not close2(r["cov"], cov) or not close2(r["avg"], avg):
            problems.append({"kind": f"{tag}: coverage columns", "path": path, "expected": [str(cov), str(avg)], "observed": [r["cov"], r["avg"]]})
        if bool(r["link"]) != is_link:
            problems.append({"kind": f"{tag}: symlink marking", "path": path})
    return problems


def check_case(ctx, case, base, cls, do_clustering=False):
    acc = ctx.acc
    shutil.rmtree(base, ignore_errors=True)
    root, rendered = materialize(case, base)
    realroot = os.path.realpath(root)
    if case["tus"]:
        ok, per_tu, expected = forest.gcc_expect(case, base, rendered)
        if not ok:
            acc.excluded("gcc-diagnostic", cls=cls)
            return
    cells = set()
    plats_conf = sorted({t["platform"] for t in case["tus"]})
    problems = []
    try:
        conf = forest.cbi_configuration(case, base)
        # every other case excludes files by pattern, half of the patterns in the analysis file, half on the command line
        # of each front end (cbi-cov has no analysis file: it gets all of them with -x)
        toml_ex, cli_ex = (["extra/deep/er/"], ["*.s", "extra/empty.h"]) if len(case["files"]) % 2 == 0 else ([], [])
        xargs = [a for x in cli_ex for a in ("-x", x)]
        if toml_ex:
            cells.add("exclude:analysis-file-plus-command-line")
        state, cb = cbi.run_find(realroot, conf, exclude_patterns=cli_ex + toml_ex)
        for p in inv_check(state):
            problems.append({"kind": "H-inv", "what": p})
        acc.hook("H-inv")
        fsm = file_setmaps(state, cb, plats_conf)
        sm_api = {frozenset(k): v for k, v in state.get_setmap(cb).items() if v}
        # reference setmap: every counted line of every non-symlink member (or symlink whose target is outside? not a member)
        ref = {}
        for fn, (is_link, sm, lines, dup) in fsm.items():
            if dup:
                problems.append({"kind": "line in two nodes", "file": fn, "lines": dup[:5]})
            if is_link:
                continue
            add(ref, sm)
        if ref != sm_api:
            problems.append({"kind": "get_setmap vs per-line attribution", "expected": {",".join(sorted(k)): v for k, v in ref.items()},
                             "observed": {",".join(sorted(k)): v for k, v in sm_api.items()}})
        total = sum(ref.values())
        used_plats = set()
        for k in ref:
            used_plats |= set(k)
        if frozenset() in ref:
            cells.add("row:empty-set")
        cells.add("platforms>=3" if len(used_plats) >= 3 else f"platforms={len(used_plats)}" if len(used_plats) < 2 else "platforms=2")
        if any(os.path.relpath(fn, realroot).count("/") >= 2 for fn in fsm):
            cells.add("dir-levels>=2")
        if any(is_link for is_link, *_ in fsm.values()):
            cells.add("symlink-row")
        if any(fn.endswith(".f90") for fn in fsm):
            cells.add("fortran-file")
        if any(fn.endswith(".s") for fn in fsm):
            cells.add("asm-file")
        if any("." in os.path.dirname(os.path.relpath(fn, realroot)) for fn in fsm):
            cells.add("dotted-directory")
        if any(part.startswith(".") for fn in fsm for part in os.path.relpath(fn, realroot).split("/")[:-1]):
            cells.add("directory-name-starting-with-dot")
        if "build/u.c" in case["links"] and any(os.path.relpath(fn, realroot) == "build/u.c" and v[0] for fn, v in fsm.items()):
            cells.add("link-target-through-directory-link-and-dotdot")
        if case.get("hard"):
            cells.add("hard-link")
        if "extra/huge_table.h" in case["extra"]:
            cells.add("file>1MiB")
        if "extra/lib-1.2/w.c" in case["extra"]:
            cells.add("crlf-file")
        if "extra/v2.0/d.ir/l1.h" in case["extra"]:
            cells.add("non-utf8-file")
        if total >= 1000:
            cells.add("sloc>=1000")
        toml = c08.write_dbs(case, base) if case["tus"] else None
        if toml is None:
            with open(os.path.join(realroot, "analysis.toml"), "w") as f:
                # no platform at all: an empty [platform] table, or no such table
                f.write("[platform]\n" if len(case["extra"]) % 2 else
                        "[codebase]\nexclude = [%s]\n" % ", ".join('"%s"' % x for x in toml_ex))
                cells.add("analysis-file:" + ("empty-platform-table" if len(case["extra"]) % 2 else "no-platform-table"))
            toml = "analysis.toml"
        if toml_ex and "[codebase]" not in open(os.path.join(realroot, toml)).read():
            with open(os.path.join(realroot, toml), "a") as f:
                f.write("\n[codebase]\nexclude = [%s]\n" % ", ".join('"%s"' % x for x in toml_ex))
        # (2) summary
        # the same reports requested in four equivalent ways: -R summary, --report summary, no -R at all (every report),
        # the deprecated -R all
        variant = len(case["files"]) % 4
        rargs = [["-R", "summary"], ["--report", "summary"], [], ["-R", "all"]][variant]
        rc, out, err = cli.run("codebasin", xargs + rargs + [toml], realroot, timeout=600)
        acc.hook("cli-runs")
        cells.add("report-selection:" + ["-R", "--report", "default-all", "-R-all"][variant])
        if rc == 0 and variant >= 2:
            if len(used_plats) >= 2:
                hdr, cellsm = cli.parse_distance_matrix(out)
                if hdr != sorted(used_plats):
                    problems.append({"kind": "all reports: distance matrix labels", "expected": sorted(used_plats), "observed": hdr})
                else:
                    for (a, b), v in cellsm.items():
                        if not close2(v, c07.ref_distance(ref, a, b)):
                            problems.append({"kind": "all reports: distance matrix cell", "pair": [a, b], "printed": v})
            if "Duplicates" not in out:
                problems.append({"kind": "all reports requested but the duplicates report is missing"})
        if rc != 0:
            problems.append({"kind": "codebasin failed", "stderr": err[-300:], "stdout": out[-300:]})
        elif total > 0:
            s = cli.parse_summary(out)
            cells.add("summary")
            rows = {k: v[0] for k, v in s["rows"].items()}
            if {k: v for k, v in rows.items()} != ref:
                problems.append({"kind": "summary rows", "expected": {",".join(sorted(k)): v for k, v in ref.items()},
                                 "observed": {",".join(sorted(k)): v for k, v in rows.items()}})
            for k, (cnt, pct) in s["rows"].items():
                if not close2(pct, Fraction(100 * cnt, total)):
                    problems.append({"kind": "summary percentage", "row": sorted(k), "count": cnt, "total": total, "printed": pct})
            if s["metrics"].get("Total SLOC") != str(total) or sum(rows.values()) != total:
                problems.append({"kind": "Total SLOC", "expected": total, "observed": s["metrics"].get("Total SLOC")})
            dv, amb = c07.ref_divergence(ref)
            for name, exact in (("Code Divergence", dv), ("Coverage (%)", c07.ref_coverage(ref)), ("Avg. Coverage (%)", c07.ref_avg_coverage(ref))):
                if not close2(s["metrics"].get(name, "?"), exact):
                    problems.append({"kind": "summary metric", "metric": name, "expected": str(exact), "printed": s["metrics"].get(name)})
        # (3) tree
        for tag, args, kw in [("tree", [], {}), ("tree:prune", ["--prune"], {"prune": True}), ("tree:-L", ["-L", "1"], {"levels": 1}),
                              ("tree:-L", ["-L", "2"], {"levels": 2}), ("tree:-L", ["-L", "3", "--prune"], {"levels": 3, "prune": True})]:
            rc, out, err = cli.run("cbi-tree", xargs + args + [toml], realroot)
            acc.hook("cli-runs")
            if rc != 0:
                problems.append({"kind": "cbi-tree failed", "args": args, "stderr": err[-300:]})
                continue
            cells.add(tag)
            if kw.get("prune") and any(not any(k for k in sm) for _, sm, _, _ in fsm.values()):
                cells.add("pruned-file")
            problems += compare_tree(tag + " " + " ".join(args), out, realroot, fsm, used_plats, **kw)
        # (4) coverage export, once per platform
        dbs = sorted(os.listdir(os.path.join(base, "dbs"))) if os.path.isdir(os.path.join(base, "dbs")) else []
        plat_of_db = {forest.dbname(pl): pl for pl in plats_conf}
        for dbn in dbs:
            p = plat_of_db.get(dbn, dbn[:-5])
            covp = os.path.join(base, "cov.json")
            # the source directory is named directly, or through a symbolic link to it (from another working directory)
            sdir, cwd_ = realroot, realroot
            if len(case["files"]) % 3 == 0:
                sdir = os.path.join(base, "rootlink")
                if not os.path.lexists(sdir):
                    os.symlink(realroot, sdir)
                cwd_ = base
                cells.add("cov:-S-through-symlink")
            rc, out, err = cli.run("cbi-cov", ["compute", "-S", sdir, "-o", covp] + [a for x in cli_ex + toml_ex for a in ("-x", x)] +
                                   [os.path.join(base, "dbs", dbn)], cwd_)
            acc.hook("cli-runs")
            if rc != 0:
                problems.append({"kind": "cbi-cov failed", "stderr": err[-300:]})
                continue
            cells.add("cov")
            cov = json.load(open(covp))
            names = [e["file"] for e in cov]
            want_names = sorted(os.path.relpath(fn, realroot) for fn in fsm)
            if sorted(names) != want_names:
                problems.append({"kind": "coverage.json file list", "missing": sorted(set(want_names) - set(names)), "extra": sorted(set(names) - set(want_names)),
                                 "duplicates": sorted({n for n in names if names.count(n) > 1})})
                continue
            for e in cov:
                fn = os.path.join(realroot, e["file"])
                with open(fn, "rb") as f:
                    digest = hashlib.sha512(f.read()).hexdigest()
                is_link, sm, lines, dup = fsm[fn]
                used = sorted(ln for ln, ps in lines.items() if p in ps)
                unused = sorted(ln for ln, ps in lines.items() if p not in ps)
                if e["id"] != digest:
                    problems.append({"kind": "coverage.json id", "file": e["file"]})
                if sorted(e["used_lines"]) != used or sorted(e["unused_lines"]) != unused or \
                        len(e["used_lines"]) + len(e["unused_lines"]) != len(set(e["used_lines"]) | set(e["unused_lines"])):
                    problems.append({"kind": "coverage.json lines", "platform": p, "file": e["file"], "expected_used": used[:12],
                                     "observed_used": sorted(e["used_lines"])[:12], "expected_unused": unused[:12], "observed_unused": sorted(e["unused_lines"])[:12]})
        # (4b) one coverage export over ALL commands of all platforms in one database: used = used by any of them
        if dbs and len(plats_conf) >= 2:
            merged = []
            for dbn in dbs:
                merged += json.load(open(os.path.join(base, "dbs", dbn)))
            mdb = os.path.join(base, "merged-db.json")
            with open(mdb, "w") as f:
                json.dump(merged, f)
            covp = os.path.join(base, "cov-merged.json")
            rc, out, err = cli.run("cbi-cov", ["compute", "-S", realroot, "-o", covp] + [a for x in cli_ex + toml_ex for a in ("-x", x)] + [mdb], realroot)
            acc.hook("cli-runs")
            if rc != 0:
                problems.append({"kind": "cbi-cov failed on the merged database", "stderr": err[-300:]})
            else:
                cells.add("cov:all-platforms-in-one-database")
                for e in json.load(open(covp)):
                    fn = os.path.join(realroot, e["file"])
                    if fn not in fsm:
                        continue
                    lines = fsm[fn][2]
                    used = sorted(ln for ln, ps in lines.items() if ps)
                    if sorted(e["used_lines"]) != used:
                        problems.append({"kind": "coverage.json of the merged database: used lines are not the union over the platforms", "file": e["file"],
                                         "expected_used": used[:12], "observed_used": sorted(e["used_lines"])[:12]})
        if case.get("twin_of") and any(os.path.relpath(fn, realroot).startswith("extra/copies/unused_twin") for fn in fsm):
            cells.add("unused-byte-identical-copy-of-a-compiled-file")
        # clustering (distance matrix) on a sample
        if do_clustering and len(used_plats) >= 2 and not problems:
            rc, out, err = cli.run("codebasin", xargs + ["-R", "clustering", toml], realroot, timeout=600)
            acc.hook("cli-runs")
            hdr, cellsm = cli.parse_distance_matrix(out)
            if rc != 0 or hdr is None:
                problems.append({"kind": "clustering failed", "stderr": err[-300:], "stdout": out[-200:]})
            else:
                cells.add("clustering")
                if hdr != sorted(used_plats):
                    problems.append({"kind": "distance matrix labels", "expected": sorted(used_plats), "observed": hdr})
                for (a, b), v in cellsm.items():
                    if not close2(v, c07.ref_distance(ref, a, b)):
                        problems.append({"kind": "distance matrix cell", "pair": [a, b], "expected": str(c07.ref_distance(ref, a, b)), "printed": v})
    except Exception as e:
        import traceback
        problems.append({"kind": "exception", "observed": f"{type(e).__name__}: {e}", "tb": traceback.format_exc()[-800:]})
    nontriv = {"files": {k: str(v) for k, v in case["files"].items()}, "tus": case["tus"], "extra": sorted(case["extra"]), "links": case["links"]} \
        if ("row:empty-set" in cells and len(cells & {"platforms=2", "platforms>=3"}) > 0) or len(cells) > 6 else None
    if problems:
        acc.violated({"input": case, "witness": {"problems": problems[:6], "commands": case["tus"], "links": case["links"],
                                                  "extra": sorted(case["extra"])}},
                     mechanism=classify(problems), cells=cells, nontrivial=nontriv, cls=cls)
    else:
        acc.held(cells=cells, nontrivial=nontriv, cls=cls, sample={"commands": case["tus"], "links": case["links"], "extra": sorted(case["extra"])})


def classify(problems):
    return None


def run_shard(ctx):
    b = bounds(ctx.tier)
    base = os.path.join(ctx.scratch, "c06")
    rng = ctx.rng("cases")
    for i in range(b["cases"]):
        case = gen_case(rng)
        if ctx.mine(i):
            check_case(ctx, case, base, "R", do_clustering=(i < b["clustering"] * 4))
    shutil.rmtree(base, ignore_errors=True)


def replay(record, ctx):
    check_case(ctx, record["input"], os.path.join(ctx.scratch, "c06"), "replay")
    return {"verdict": "violated" if ctx.acc.verdicts["violated"] else "held", "violations": ctx.acc.violations}
