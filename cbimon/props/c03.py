"""
C03 -- macro definition and expansion conform to the C standard.

Monitored execution: MacroExpander(platform).expand(Lexer(text).tokenize()) on
a recording Platform whose macros were entered as #define lines, as -D
strings, or mixed (H-expand counts expander steps); `#if MACRO(...) == k`
through IfNode; `#include MACRO(...)` through finder.find.
Oracle: gcc -E -P on a probe line (batched), tokenised by the independent
pptok; both token streams are canonicalised (punctuators exploded into single
characters, identifiers / numbers / strings / character constants whole).
"""

import os
import re
import shutil

from cbimon import cbi, hooks
from cbimon.oracles import gcc, pptok

PROP = "C03"
RULE = ("case = (macro table as #define lines, probe text). E: hand-written hostile corpus (ISO C 6.10.3.5 examples 3,4,5,7; "
        "empty arguments beside ## in every position; chained ##; # next to ##; # of strings / character constants / "
        "arguments with inner white space and escapes; function-like name produced by rescanning that takes its arguments "
        "from the following source; name not followed by '('; nested parentheses / commas; __VA_ARGS__ with 0/1/many "
        "arguments named and unnamed; direct / mutual / argument-borne recursion; 199-deep object-like chains). R: tables of "
        "<=6 macros with bodies <=10 tokens from the grammar, crossed with random invocations. Every table is entered as "
        "#define, as -D strings and mixed. Excluded: anything gcc diagnoses. Non-trivial: >=1 function-like macro is "
        "actually expanded; distinct by (defines, text).")
ASSUMPTIONS = ["gcc 12.2 -E -P is the conforming preprocessor", "token streams are compared after exploding punctuator runs into "
               "single characters; white space is compared only inside strings produced by #",
               "__LINE__, __FILE__, __COUNTER__, __VA_OPT__, _Pragma are not generated"]
REQUIRED_HOOKS = ["H-expand", "H-gcc-batch"]

ISO3 = ["#define x 3", "#define f(a) f(x * (a))", "#undef x", "#define x 2", "#define g f", "#define z z[0]", "#define h g(~",
        "#define m(a) a(w)", "#define w 0,1", "#define t(a) a", "#define p() int", "#define q(x) x", "#define r(x,y) x ## y",
        "#define str(x) # x"]
ISO4 = ["#define str(s) # s", "#define xstr(s) str(s)", "#define debug(s, t) printf(\"x\" # s \"= %d, x\" # t \"= %s\", x ## s, x ## t)",
        "#define INCFILE(n) vers ## n", "#define glue(a, b) a ## b", "#define xglue(a, b) glue(a, b)", "#define HIGHLOW \"hello\"",
        "#define LOW LOW \", world\""]
ISO5 = ["#define t(x,y,z) x ## y ## z"]
ISO7 = ["#define debug(...) fprintf(stderr, __VA_ARGS__)", "#define showlist(...) puts(#__VA_ARGS__)",
        "#define report(test, ...) ((test)?puts(#test): printf(__VA_ARGS__))"]

HOSTILE = [
    (ISO3, "f(y+1) + f(f(z)) % t(t(g)(0) + t)(1);"),
    (ISO3, "g(x+(3,4)-w) | h 5) & m (f)^m(m);"),
    (ISO3, "p() i[q()] = { q(1), r(2,3), r(4,), r(,5), r(,) };"),
    (ISO3, "char c[2][6] = { str(hello), str() };"),
    (ISO4, "debug(1, 2);"),
    (ISO4, "fputs(str(strncmp(\"abc\\0d\", \"abc\", '\\4') == 0) str(: @\\n), s);"),
    (ISO4, "xstr(INCFILE(2).h)"),
    (ISO4, "glue(HIGH, LOW);"),
    (ISO4, "xglue(HIGH, LOW)"),
    (ISO5, "int j[] = { t(1,2,3), t(,4,5), t(6,,7), t(8,9,), t(10,,), t(,11,), t(,,12), t(,,) };"),
    (ISO7, "debug(\"Flag\");"),
    (ISO7, "debug(\"X = %d\\n\", x);"),
    (ISO7, "showlist(The first, second, and third items.);"),
    (ISO7, "report(x>y, \"x is %d but y is %d\", x, y);"),
    (["#define f(a) a*g", "#define g(a) f(a)"], "f(2)(9)"),
    (["#define G(x) (x)", "#define F G"], "F(3) F (4) F"),
    (["#define G(x) [x]", "#define F() G"], "F()(5) F() (6) F()"),
    (["#define EMPTY", "#define F(x) <x>"], "F(EMPTY) F() F( ) F(EMPTY EMPTY)"),
    (["#define CAT(a,b) a##b"], "CAT(,) CAT(x,) CAT(,y) CAT(x,y) CAT(1,2) CAT(x,1) CAT(a b,c d)"),
    (["#define CAT3(a,b,c) a##b##c"], "CAT3(1,2,3) CAT3(a,,c) CAT3(,,) CAT3(a,b,) CAT3(,b,c)"),
    (["#define CAT(a,b) a##b", "#define XCAT(a,b) CAT(a,b)", "#define ONE 1", "#define TWO 2"], "CAT(ONE,TWO) XCAT(ONE,TWO) CAT(ONE,) XCAT(ONE,)"),
    (["#define S(x) #x", "#define XS(x) S(x)", "#define V 42"], "S(V) XS(V) S( a   b ) S(\"q\") S('c') S('\\n') S(\"a\\\\b\") S(a,b) S() S(  )"),
    (["#define S(x) #x"], "S(\"a \\\" b\") S('\"') S(\"\\n\") S(a   b) S(+ +) S(a##b)"),
    (["#define HS(a,b) #a ## #b", "#define SC(a,b) #a b", "#define CS(a,b) a ## b #a"], "SC(x, y) CS(p,q)"),
    (["#define F(x) x", "#define NAME F"], "NAME NAME(1) F F (2) F\t(3) (F)(4)"),
    (["#define F(x,y) x+y"], "F((1,2),3) F((a,(b,c)),[d,e]) F(f(1,2),g(3)) F(,) F((),())"),
    (["#define V(...) <__VA_ARGS__>", "#define V1(a,...) [a|__VA_ARGS__]", "#define VN(a, rest...) {a|rest}"],
     "V() V(1) V(1,2,3) V(,) V1(1) V1(1,2) V1(1,2,3) V1(,) VN(1) VN(1,2,3) V((a,b),c)"),
    (["#define SV(...) #__VA_ARGS__", "#define CV(x,...) x##__VA_ARGS__"], "SV() SV(a) SV(a,b , c) CV(a,b) CV(a,b,c) CV(a)"),
    (["#define A A", "#define B C", "#define C B", "#define R(x) R(x) x"], "A B C R(1) R(R(2)) R(A)"),
    (["#define F(x) G(x)", "#define G(x) F(x)"], "F(1) G(F(2)) F(G)(3)"),
    (["#define ID(x) x", "#define SELF(x) ID(SELF)(x)"], "SELF(1) ID(ID)(2) ID(ID(ID))(3)"),
    (["#define APPLY(m, a) m(a)", "#define INC(x) x+1", "#define TWICE(m, a) m(m(a))"], "APPLY(INC, 2) TWICE(INC, 3) APPLY(APPLY, INC) APPLY(ID, 5)"),
    (["#define LP (", "#define RP )", "#define F(x) [x]"], "F LP 1 RP F(LP) F(RP"[:-0] if False else "F LP 1 RP"),
    (["#define COMMA ,", "#define F(a,b) a|b", "#define G(x) F(x)"], "F(1 COMMA 2, 3) G(1 COMMA 2)"),
    (["#define OBJ (a)", "#define FN(a) <a>", "#define FN2 (a) <a>"], "OBJ FN(1) FN2(2) FN2"),
    (["#define N1 N2 + 1", "#define N2 N3 * 2", "#define N3 (N4)", "#define N4 7"], "N1 N1+N1 -N1"),
    (["#define E1(x) E2(x) E2(x)", "#define E2(x) E3(x) E3(x)", "#define E3(x) x x"], "E1(a) E1(E3(b))"),
    (["#define foo(x) bar x", "#define bar(y) <y>"], "foo(foo) (2) foo((3)) foo(bar)(4)"),
    (["#define f(x) x f", "#define g f(1)"], "g(2) f(1)(2)(3)"),
    (["#define AA BB", "#define BB AA"], "AA BB AA(1)"),
    (["#define obj_with_paren_later F", "#define F(x) {x}"], "obj_with_paren_later(9) obj_with_paren_later (8)"),
    (["#define Q(x) x", "#define W Q(1", "#define Z 2)"], "W Z W , 3)"),
    (["#define STR(x) #x", "#define P(a, b) STR(a ## b) a ## b"], "P(x, y) P(1, 2) P(+, =) P(<, <) P(., 5)"),
    (["#define DOT(a,b) a.b", "#define NUM(a,b) a ## b", "#define E(a,b) a ## e ## b"], "DOT(1,2) NUM(1,.5) NUM(0x,ff) E(1,+3) NUM(1,e) NUM(.,5)"),
]


def chain_case(n):
    defs = [f"#define L{i} L{i + 1}" for i in range(n)] + [f"#define L{n} done"]
    return defs, "L0 L1"


HOSTILE.append(chain_case(150))
HOSTILE.append(chain_case(199))
HOSTILE.append(chain_case(250))
# `, ## __VA_ARGS__`: with the variable argument present (even if empty) this is an ordinary paste with a placemarker
HOSTILE.append((["#define E(fmt, ...) f(fmt, ## __VA_ARGS__)", "#define THIRD(a, b, c, ...) c",
                 "#define PICK(x, ...) THIRD(x , ## __VA_ARGS__, 7, 9)", "#define LOG(lvl, fmt, ...) p(lvl, fmt , ##__VA_ARGS__)"],
                "E(1,) E(1,2) E(1,2,3) E(1, ) E(,) PICK(1,) PICK(1,2) LOG(0, \"x\",) LOG(0, \"x\", a, b)"))
# string and character constants that spell punctuation are ordinary argument tokens
HOSTILE.append((["#define F(x) [x]", "#define G(x,y) x|y", "#define S(x) #x", "#define T(x) S(x)", "#define V(...) #__VA_ARGS__", "#define W(...) V(__VA_ARGS__)"],
                "F(\",\") F(\")\") F(\"(\") F(',') F(')') F('(') G(\",\",1) G(\")\", \"(\") S(\",\") S(',') W(V(,)) T(V(,)) T(S(\")\")) F \"(\" 1"))
# identifiers with letters outside ASCII, as macro names, parameters and paste operands
HOSTILE.append((["#define gr\u00f6\u00dfe 4", "#define CARR\u00c9(\u03c0) ((\u03c0)*(\u03c0))", "#define COLLER(a,b) a##b", "#define CHA\u00ceNE(x) #x"],
                "CARR\u00c9(gr\u00f6\u00dfe) COLLER(x\u00e9, 1) gr\u00f6\u00dfe CHA\u00ceNE(\u00e9t\u00e9 gr\u00f6\u00dfe) COLLER(gr\u00f6, \u00dfe)"))
# character constants with an encoding prefix keep it through arguments, # and macro bodies
HOSTILE.append((["#define STR(x) #x", "#define XSTR(x) STR(x)", "#define ID(x) x", "#define WIDE L'a'"],
                "STR(L'a') ID(ID(u8'z')) XSTR(WIDE) ID(U'x') STR(u'y') L'a'"))
# constants in a replacement list that spell an operator of the preprocessor or a parameter are just constants
HOSTILE.append((["#define ISHASH(c) ((c)=='#')", "#define F(x) ('x' + x)", "#define S \"##\"", "#define G(a) \"a\" a", "#define H(a) '#' a \"#a\""],
                "ISHASH(35) F(1) S G(2) H(3)"))
# GNU extension: the comma is dropped when the variable argument is absent altogether
HOSTILE.append((["#define E(fmt, ...) f(fmt, ## __VA_ARGS__)"], "E(1) E(x) end"))
# white space in front of a function-like invocation survives the replacement (it shows when the result is stringified,
# and when it forms the operand of a computed #include)
HOSTILE.append((["#define ID(x) x", "#define STR(x) #x", "#define XSTR(x) STR(x)", "#define F(a, b) a b", "#define EMPTY"],
                "XSTR(a ID(b)) XSTR(a  ID(b) c) XSTR(ID(a) ID(b)) XSTR(x F(1, 2) y) XSTR(a ID( b )) XSTR(( ID(b))) XSTR(a ID(ID(b))) XSTR(a EMPTY ID(b)) XSTR(inc/my ID(hdr).h)"))

ARITH = [
    (["#define ADD(a,b) ((a)+(b))", "#define SQ(x) x*x", "#define TWO 2"], ["ADD(1,2)", "SQ(1+2)", "SQ(TWO)", "ADD(SQ(2),TWO)", "ADD(,1)", "SQ((1+2))"]),
    (["#define SUM(...) (0 __VA_ARGS__)", "#define P(x) +x"], ["SUM()", "SUM(+1)", "SUM(+1+2)", "SUM(P(1) P(2) P(3))"]),
    (["#define CAT(a,b) a##b", "#define V12 7"], ["CAT(V,12)", "CAT(1,2)", "CAT(V1,2) + CAT(,1)"]),
    (["#define IS(x) defined(x)", "#define Y"], ["IS(Y) + 1", "defined(Y) + defined Y + defined(NOPE)"]),
    (["#define F(x) x", "#define G F"], ["G(3)", "F(G)(4)", "G (5) + G(1)"]),
    (["#define THIRD(a, b, c, ...) c", "#define PICK(x, ...) THIRD(x , ## __VA_ARGS__, 7, 9)"], ["PICK(1,)", "PICK(1,2)", "PICK(1,2,3)"]),
    (["#define ISHASH(c) ((c)=='#')", "#define F(x) ('x' + x)"], ["ISHASH(35)", "ISHASH(36)", "F(1) - 120"]),
    (["#define gr\u00f6\u00dfe 4", "#define CARR\u00c9(\u03c0) ((\u03c0)*(\u03c0))"], ["CARR\u00c9(gr\u00f6\u00dfe) - 9", "gr\u00f6\u00dfe"]),
]
KS = [0, 1, 2, 3, 4, 5, 6, 7, 9, 12, 21, -1]


def bounds(tier):
    return {"random": 2500 if tier == "quick" else 90000, "batch": 400}


def required_cells(tier):
    return ["paste:empty-left", "paste:empty-right", "paste:both-empty", "stringify", "stringify+paste", "rescan-takes-following-source",
            "name-without-paren", "recursion:direct", "recursion:mutual", "recursion:argument-borne", "variadic:0", "variadic:1",
            "variadic:many", "variadic:named", "nested-parens-in-argument", "form:define", "form:-D", "form:mixed",
            "-D:object", "-D:empty-value", "-D:valued", "-D:function-like", "via-#if", "via-#include", "re-evaluated-define", "deep-chain", "class:E", "class:R",
            "layout:forced-include-defaults-a-command-line-macro", "layout:headers-outside-root", "layout:headers-inside-root",
            "layout:multi-line-comment-inside-directive-followed-by-tokens", "layout:comment-line-ending-in-star", "definitions-as-implicit-options",
            "definitions-as-implicit-options:gcc-compared", "layout:splice-inside-a-token-of-a-directive", "strict:hand-checked-entry"]


# ------------------------------------------------------------- CBI driver --
def spell_tokens(tokens):
    """Canonical atoms of a codebasin token list."""
    out = []
    for t in tokens:
        name = type(t).__name__
        s = str(t.token)
        if name == "StringConstant":
            out.append(("str", '"' + s + '"'))
        elif name == "CharacterConstant":
            out.append(("chr", "'" + s + "'"))
        elif name == "NumericalConstant":
            out.append(("num", s))
        elif name == "Identifier":
            out.append(("id", s))
        else:
            for ch in s:
                out.append(("p", ch))
    return out


def to_D(define_line):
    """'#define NAME(args) body' -> '-D' string, or None if the line is not a #define."""
    m = re.match(r"#\s*define\s+(\w+(?:\([^)]*\))?)(?:\s+(.*))?$", define_line)
    if not m:
        return None
    head, body = m.group(1), m.group(2)
    # NAME followed by white space then '(' is object-like: keep the distinction
    if body is None:
        return head + "="
    return f"{head}={body}"


class Driver:
    def __init__(self):
        from codebasin import platform as cplat
        from codebasin import preprocessor as pp
        from codebasin import config
        self.pp, self.cplat, self.config = pp, cplat, config

    def platform(self, defines, form):
        pp = self.pp
        plat = self.cplat.Platform("p", "/")
        for i, d in enumerate(defines):
            use_D = form == "-D" or (form == "mixed" and i % 2 == 0)
            ds = to_D(d) if use_D else None
            if d.lstrip("# ").startswith("undef"):
                node = pp.DirectiveParser(pp.Lexer(d).tokenize()).parse()
                node.evaluate_for_platform(platform=plat)
            elif ds is not None:
                # -D through the front door: the option goes through the real command-line parser (sometimes preceded
                # by -U of the same name, which a compiler processes first and which therefore changes nothing, and by
                # options that are not modelled); what comes out is defined the way finder.find does it
                name = re.match(r"\w+", ds).group(0)
                argv = (["-U" + name] if i % 3 == 0 else []) + (["-O2", "-fPIC"] if i % 4 == 1 else []) + ["-D" + ds, "-c", "x.c"]
                cfgs = [c for c in self.config.ArgumentParser("gcc").parse_args(argv) if c.pass_name == "default"]
                for dd in cfgs[0].defines:
                    macro = pp.macro_from_definition_string(dd)
                    plat.define(macro.name, macro)
            else:
                node = pp.DirectiveParser(pp.Lexer(d).tokenize()).parse()
                node.evaluate_for_platform(platform=plat)
        return plat

    def expand(self, defines, text, form):
        pp = self.pp
        try:
            with hooks.monitor(platform=False, evals=False, assoc=False, expand=True, logs=False) as ev:
                plat = self.platform(defines, form)
                toks = pp.MacroExpander(plat).expand(pp.Lexer(text).tokenize())
            return ("ok", spell_tokens(toks)), ev
        except Exception as e:
            return ("exc", f"{type(e).__name__}: {e}"[:200]), None

    def if_truth(self, defines, expr):
        pp = self.pp
        try:
            plat = self.platform(defines, "define")
            node = pp.DirectiveParser(pp.Lexer("#if " + expr).tokenize()).parse()
            return ("ok", bool(node.evaluate_for_platform(platform=plat)))
        except Exception as e:
            return ("exc", f"{type(e).__name__}: {e}"[:200])


# -------------------------------------------------------------- generator --
def gen_table(rng):
    """Random macro table + probe text from the grammar of the quantifier."""
    objs = [f"O{i}" for i in range(rng.randint(0, 3))]
    fns = []
    for i in range(rng.randint(1, 3)):
        np_ = rng.randint(0, 3)
        params = ["a", "b", "c"][:np_]
        var = rng.random() < 0.25
        named = var and rng.random() < 0.3 and np_ < 3
        fns.append((f"F{i}", params, var, named))
    names = objs + [f[0] for f in fns]
    defs = []

    def atom(params, allow_call=True):
        x = rng.random()
        if params and x < 0.35:
            return rng.choice(params)
        if x < 0.5:
            return rng.choice(["x", "y", "k_1"])
        if x < 0.65:
            return rng.choice(["1", "2", "0x1f", "3u", "10"])
        if x < 0.8 and names:
            n = rng.choice(names)
            f = [q for q in fns if q[0] == n]
            if f and allow_call and rng.random() < 0.7:
                k = len(f[0][1]) + (rng.randint(0, 2) if f[0][2] else 0)
                return n + "(" + ", ".join(atom(params, False) if rng.random() < 0.85 else "" for _ in range(k)) + ")"
            return n
        return rng.choice(["+", "-", "*", "(", ")", ",", ";", "[", "]", "<", "==", "."])

    def body(params, var, named):
        toks = []
        ps = list(params) + (["rest" if named else "__VA_ARGS__"] if var else [])
        n = rng.randint(0, 8)
        depth = 0
        while len(toks) < n:
            x = rng.random()
            if ps and x < 0.12:
                toks.append("#" + rng.choice(ps))
            elif ps and x < 0.27:
                l = rng.choice(ps + ["x", "1", "p_"])
                r = rng.choice(ps + ["y", "2", "_q"])
                if l in ps or r in ps:
                    toks.append(f"{l} ## {r}" + (f" ## {rng.choice(ps + ['z'])}" if rng.random() < 0.2 else ""))
            else:
                t = atom(ps)
                if t == "(":
                    depth += 1
                elif t == ")":
                    if depth == 0:
                        continue
                    depth -= 1
                toks.append(t)
        toks += [")"] * depth
        return " ".join(toks)

    for o in objs:
        defs.append(f"#define {o} {body([], False, False)}".rstrip())
    for n, params, var, named in fns:
        plist = list(params)
        if var:
            plist.append("rest..." if named else "...")
        defs.append(f"#define {n}({','.join(plist)}) {body(params, var, named)}".rstrip())

    def arg(depth=0):
        x = rng.random()
        if x < 0.12:
            return ""
        if x < 0.3 and depth < 2:
            return "(" + arg(depth + 1) + ", " + arg(depth + 1) + ")"
        if x < 0.5 and names:
            n = rng.choice(names)
            f = [q for q in fns if q[0] == n]
            if f and depth < 2 and rng.random() < 0.6:
                k = len(f[0][1]) + (rng.randint(0, 2) if f[0][2] else 0)
                return n + "(" + ", ".join(arg(depth + 1) for _ in range(k)) + ")"
            return n
        return rng.choice(["1", "x", "y + 1", "2 * z", "\"s\"", "'c'", "a b", "p.q", "-1", "x y z"])

    parts = []
    for _ in range(rng.randint(1, 4)):
        n = rng.choice(names) if names else "x"
        f = [q for q in fns if q[0] == n]
        if f and rng.random() < 0.85:
            k = len(f[0][1]) + (rng.randint(0, 3) if f[0][2] else 0)
            parts.append(n + rng.choice(["", " "]) + "(" + ", ".join(arg() for _ in range(k)) + ")")
        else:
            parts.append(n)
        if rng.random() < 0.3:
            parts.append(rng.choice(["+", ";", "x", "(1)", "(2, 3)"]))
    return defs, " ".join(parts)


# ------------------------------------------------------------------ check --
def features(defines, text):
    cells = set()
    dtext = "\n".join(defines)
    if re.search(r"#define \w+\([^)]*\)[^\n]*##", dtext):
        if re.search(r"\(\s*,|,\s*,|,\s*\)", text) or "()" in text:
            cells.add("paste:maybe-empty")
    if re.search(r"(^|[^#])#\s*\w", "\n".join(d.split(")", 1)[-1] for d in defines if "(" in d.split()[1])):
        cells.add("stringify")
    if re.search(r"#\s*\w+\s*##|##\s*#", dtext):
        cells.add("stringify+paste")
    if "..." in dtext:
        if "rest..." in dtext or re.search(r"\w\.\.\.", dtext):
            cells.add("variadic:named")
    if re.search(r"\(\s*\(", text) or re.search(r"\([^()]*\([^()]*,[^()]*\)", text):
        cells.add("nested-parens-in-argument")
    return cells


HOSTILE_CELLS = {0: ["recursion:argument-borne"], 2: ["paste:empty-left", "paste:empty-right", "paste:both-empty"], 9: ["paste:empty-left", "paste:empty-right", "paste:both-empty"],
                 14: ["rescan-takes-following-source"], 15: ["rescan-takes-following-source", "name-without-paren"], 16: ["rescan-takes-following-source"],
                 24: ["name-without-paren"], 26: ["variadic:0", "variadic:1", "variadic:many", "variadic:named"], 28: ["recursion:direct", "recursion:mutual"],
                 29: ["recursion:mutual"], 30: ["recursion:argument-borne"]}


def process_batch(ctx, drv, batch, work):
    """batch: list of (defines, text, cls, extra_cells)."""
    acc = ctx.acc
    res = gcc.expand_texts([(d, t) for d, t, _, _ in batch], work)
    acc.hook("H-gcc-batch")
    for (defines, text, cls, extra), (gtext, diag) in zip(batch, res):
        if gtext is None:
            acc.excluded("gcc-diagnostic", cls=cls)
            continue
        want = pptok.atoms(gtext)
        cells = set(extra) | features(defines, text) | {"class:" + cls}
        fn_used = any(re.search(r"\b%s\s*\(" % re.escape(m.group(1)), text) for d in defines for m in [re.match(r"#define (\w+)\(", d)] if m)
        nontriv = (defines, text) if fn_used else None
        problems = []
        steps = 0
        for form in ("define", "-D", "mixed"):
            if form != "define" and any("undef" in d for d in defines):
                continue        # a table with #undef has no pure -D rendering
            if form != "define" and any(to_D(d) is None for d in defines):
                continue
            (st, val), ev = drv.expand(defines, text, form)
            cells.add("form:" + form)
            if form != "define":
                for d in defines:
                    ds = to_D(d)
                    cells.add("-D:function-like" if "(" in ds.split("=")[0] else "-D:empty-value" if ds.endswith("=") else "-D:valued")
                    cells.add("-D:object") if "(" not in ds.split("=")[0] else None
            if ev is not None:
                steps = max(steps, ev.expand_steps)
                acc.hook("H-expand", ev.expand_steps)
                if ev.expand_steps > 100000:
                    problems.append({"kind": "expansion did not finish within the step bound", "steps": ev.expand_steps, "form": form})
                if ev.expand_overflow:
                    acc.extra["expander-backstop-fired"] += 1
            if st == "exc":
                problems.append({"kind": "exception", "form": form, "observed": val})
            elif val != want:
                problems.append({"kind": "token sequence", "form": form, "expected": "".join(s + " " for _, s in want).strip(),
                                 "observed": "".join(s + " " for _, s in val).strip()})
        if problems and gcc.open_at_end(defines, text, work):
            # the probe leaves an invocation open at its end (the batch's guard line closed it for gcc): not self-contained
            acc.excluded("invocation-open-at-end-of-text", cls=cls)
            continue
        if problems:
            sh_defs, sh_text = shrink(drv, defines, text, work)
            (sg, _), = gcc.expand_texts([(sh_defs, sh_text)], work, name="shrunk.c")
            (sst, sval), _ = drv.expand(sh_defs, sh_text, "define")
            acc.violated({"input": {"defines": defines, "text": text},
                          "witness": {"shrunk": {"defines": sh_defs, "text": sh_text, "gcc": (sg or "").strip(),
                                                 "cbi": sval if sst == "exc" else " ".join(x for _, x in sval)},
                                      "defines": defines, "text": text, "gcc": gtext.strip(), "problems": problems[:4]}},
                         mechanism=None if "strict:hand-checked-entry" in extra else classify(drv, sh_defs, sh_text, work),
                         cells=cells, nontrivial=nontriv, cls=cls)
        else:
            acc.held(cells=cells, nontrivial=nontriv, cls=cls,
                     sample={"defines": defines, "text": text, "expansion": gtext.strip(), "expander_steps": steps})


PATHOLOGICAL = re.compile(r"##\s*##|##\s*#(?!#)|(?<!#)#\s*##")


def failure_signature(st, val):
    return ("exception", str(val).split(":")[0]) if st == "exc" else ("tokens",)


def violates(drv, defines, text, work, signature=None):
    if any(PATHOLOGICAL.search(d.split(")", 1)[-1] if "(" in d.split()[1] else d) for d in defines):
        return False
    (gtext, diag), = gcc.expand_texts([(defines, text)], work, name="shrink.c")
    if gtext is None or gcc.open_at_end(defines, text, work):
        return False
    (st, val), _ = drv.expand(defines, text, "define")
    if not (st == "exc" or val != pptok.atoms(gtext)):
        return False
    return signature is None or failure_signature(st, val) == signature


TOK = re.compile(r'##|\.\.\.|"(?:\\.|[^"\\])*"|\'(?:\\.|[^\'\\])*\'|[A-Za-z_]\w*|\.?\d[\w.]*|\S')


def split_define(d):
    m = re.match(r"(#\s*define\s+\w+(?:\([^)]*\))?)(.*)$", d)
    if not m:
        return d, []
    return m.group(1), TOK.findall(m.group(2))


def shrink(drv, defines, text, work, budget=160):
    """Drop macro definitions, body tokens and probe tokens while gcc still accepts and CBI still differs."""
    defines = list(defines)
    sig = failure_signature(*drv.expand(defines, text, "define")[0])
    toks = TOK.findall(text)
    if not violates(drv, defines, " ".join(toks), work, sig):
        toks = text.split(" ")
    changed = True
    while changed and budget > 0:
        changed = False
        for i in range(len(defines)):
            cand = defines[:i] + defines[i + 1:]
            budget -= 1
            if violates(drv, cand, " ".join(toks), work, sig):
                defines, changed = cand, True
                break
        if changed:
            continue
        for i in range(len(toks)):
            for w in (3, 1):
                cand = toks[:i] + toks[i + w:]
                budget -= 1
                if cand and violates(drv, defines, " ".join(cand), work, sig):
                    toks, changed = cand, True
                    break
            if changed or budget <= 0:
                break
        if changed:
            continue
        for di, d in enumerate(defines):
            head, body = split_define(d)
            for i in range(len(body)):
                nb = body[:i] + body[i + 1:]
                cand = defines[:di] + [(head + " " + " ".join(nb)).rstrip()] + defines[di + 1:]
                budget -= 1
                if violates(drv, cand, " ".join(toks), work, sig):
                    defines, changed = cand, True
                    break
                if budget <= 0:
                    break
            if changed or budget <= 0:
                break
    return defines, " ".join(toks)


MULTI_PUNCT = re.compile(r"\+=|-=|\*=|/=|%=|&=|\|=|\^=|\+\+|--|->|<<=|>>=|::|\.\.\.")


def classify(drv, defines, text, work):
    """Known-finding predicates over the shrunk witness."""
    (gtext, diag), = gcc.expand_texts([(defines, text)], work, name="classify.c")
    if gtext is None:
        return None
    (st, val), _ = drv.expand(defines, text, "define")
    want = pptok.atoms(gtext)
    bodies = "\n".join(defines)
    if st == "ok" and [x for _, x in val] == ["0"] and len(defines) >= 190:
        return "expansion-depth-backstop"
    if st == "ok" and "##" in bodies and MULTI_PUNCT.search(gtext):
        return "paste-result-not-in-cbi-punctuator-set"
    if st == "ok" and re.search(r"#\s*(__VA_ARGS__|\w+)", bodies) and "..." in bodies:
        # differs only by white space inside string tokens?
        strip = lambda atoms: [(k, x.replace(" ", "") if k == "str" else x) for k, x in atoms]
        if strip(val) == strip(want) and val != want:
            return "variadic-stringify-loses-space-before-comma"
    if re.search(r"__VA_ARGS__\s*##|##\s*__VA_ARGS__|\w+\.\.\.\)[^\n]*##", bodies) and "..." in bodies:
        return "paste-adjacent-to-va-args-with-several-arguments"
    if st == "ok" and re.search(r"\b(L|u8|u|U)'", bodies + "\n" + text):
        # identical once every prefixed character constant of gcc's output is split into prefix + constant
        split = []
        for k_, x_ in want:
            mm = re.match(r"(L|u8|u|U)('.*)$", x_) if k_ == "chr" else None
            split += [("id", mm.group(1)), ("chr", mm.group(2))] if mm else [(k_, x_)]
        if split == list(val) and val != want:
            return "prefixed-character-constant-lexed-as-identifier-plus-constant"
    if st == "ok" and re.search(r"#\s*\w+", bodies):
        # the token sequences agree, and so do the strings produced by # once blanks are ignored: only the white
        # space # records between tokens that came out of another expansion differs
        strip = lambda atoms: [(k, x.replace(" ", "") if k == "str" else x) for k, x in atoms]
        if strip(val) == strip(want) and val != want:
            return "stringify-white-space-at-expansion-boundary"
    objs = [re.match(r"#define (\w+)(?:\([^)]*\))?\s*(.*)$", d) for d in defines]      # name, replacement list (object- or function-like)
    unbalanced = [m.group(1) for m in objs if m and m.group(2).count("(") != m.group(2).count(")")]
    if st == "exc" and unbalanced and str(val).startswith(("IndexError", "RecursionError")):
        # the same lost mark shows as an exception when the re-expansion meets an invocation with too few arguments
        names = [m.group(1) for m in objs if m]
        if any(re.search(r"\b%s\b" % re.escape(n), m.group(2)) for m in objs if m and m.group(1) in unbalanced for n in names):
            return "painted-token-in-invocation-closed-outside-its-replacement"
    if st == "ok" and unbalanced:
        # an invocation opened inside one replacement list and closed outside it, whose argument holds a macro name that
        # was not replaced because it is being expanded (a "painted" token): gcc keeps it, the code loses or re-expands it
        names = [m.group(1) for m in objs if m]
        gnames = [x for k, x in want if k == "id" and x in names]
        cnames = [x for k, x in val if k == "id" and x in names]
        if gnames != cnames:
            return "painted-token-in-invocation-closed-outside-its-replacement"
    return None


def d_head(define_line):
    """'#define NAME(params)' head of a definition line (without the replacement list)."""
    m = re.match(r"#define \w+(\([^)]*\))?", define_line)
    return m.group(0) if m else define_line


def arith_class(ctx, drv, work):
    """`#if MACRO(...) == k`: the truth value CBI uses equals gcc's, for k over a probe set."""
    acc = ctx.acc
    cases = []
    for defs, exprs in ARITH:
        for e in exprs:
            for k in KS:
                cases.append((defs, f"({e}) == {k}" if k >= 0 else f"({e}) == -{-k}"))
    # gcc truth: batch through the expression oracle with macros given as #define lines
    lines = []
    owner = []
    for i, (defs, expr) in enumerate(cases):
        lines += defs + [f"#if {expr}", f"cbi_m_e{i};", "#endif"] + [f"#undef {re.match(r'#define (\w+)', d).group(1)}" for d in defs]
    path = os.path.join(work, "arith.c")
    with open(path, "w") as f:
        f.write("\n".join(lines) + "\n")
    g = gcc.preprocess(path)
    live = set(g["markers"])
    bad_lines = {int(m.group(1)) for m in re.finditer(r":(\d+):\d+: (?:error|warning)", g["stderr"])}
    for i, (defs, expr) in enumerate(cases):
        if not ctx.mine(i):
            continue
        if g["stderr"] and any(expr in l for l in g["stderr"].splitlines()):
            acc.excluded("gcc-diagnostic", cls="if")
            continue
        gt = f"cbi_m_e{i}" in live
        st = drv.if_truth(defs, expr)
        if st == ("ok", gt):
            acc.held(cells=["via-#if"], cls="if", nontrivial=(defs, expr))
        else:
            acc.violated({"input": {"defines": defs, "expr": expr}, "witness": {"defines": defs, "expr": expr, "expected": gt, "observed": list(st)}},
                         cells=["via-#if"], cls="if", nontrivial=(defs, expr))


def include_class(ctx, work):
    """`#include MACRO(...)` selecting one of several marker headers, through finder.find vs gcc."""
    acc = ctx.acc
    variants = [
        (["#define HDR(x) <x.h>"], "#include HDR(one)"),
        (["#define HDR(x) <x.h>"], "#include HDR(two)"),
        (["#define STR(x) #x", "#define XSTR(x) STR(x)", "#define NAME two.h"], "#include XSTR(NAME)"),
        (["#define STR(x) #x"], "#include STR(one.h)"),
        (["#define PICK(a,b) b", "#define Q \"one.h\"", "#define R \"two.h\""], "#include PICK(Q, R)"),
        (["#define CAT(a,b) a##b", "#define H1 \"one.h\"", "#define H2 \"two.h\""], "#include CAT(H,2)"),
        (["#define ANGLE <one.h>"], "#include ANGLE"),
        (["#define WHICH 2", "#define CAT(a,b) a##b", "#define XCAT(a,b) CAT(a,b)", "#define H1 \"one.h\"", "#define H2 \"two.h\""], "#include XCAT(H,WHICH)"),
    ]
    for i, (defs, inc) in enumerate(variants):
        if not ctx.mine(i):
            continue
        d = os.path.join(work, f"inc{i}")
        shutil.rmtree(d, ignore_errors=True)
        os.makedirs(os.path.join(d, "inc"))
        with open(os.path.join(d, "inc", "one.h"), "w") as f:
            f.write("cbi_m_one_1;\n")
        with open(os.path.join(d, "inc", "two.h"), "w") as f:
            f.write("cbi_m_two_1;\n")
        text = "\n".join(defs + [inc, "cbi_m_main_end;"]) + "\n"
        src = os.path.join(d, "main.c")
        with open(src, "w") as f:
            f.write(text)
        g = gcc.preprocess(src, search=[("I", os.path.join(d, "inc"))])
        if not g["ok"]:
            acc.excluded("gcc-diagnostic", cls="include")
            continue
        try:
            state, _ = cbi.run_find(d, {"p": [cbi.entry(src, include_paths=[os.path.join(d, "inc")])]})
            got = {n for n in ("one", "two") if state.get_tree(os.path.join(d, "inc", n + ".h")) and
                   cbi.used_lines(state, os.path.join(d, "inc", n + ".h"), "p")}
            want = {n for n in ("one", "two") if f"cbi_m_{n}_1" in g["markers"]}
            ok = got == want
            obs = sorted(got)
        except Exception as e:
            ok, obs, want = False, f"{type(e).__name__}: {e}", set()
        if ok:
            acc.held(cells=["via-#include"], cls="include", nontrivial=(defs, inc))
        else:
            acc.violated({"input": {"defines": defs, "text": inc}, "witness": {"defines": defs, "include": inc, "expected": sorted(want), "observed": obs}},
                         cells=["via-#include"], cls="include", nontrivial=(defs, inc))


def layout_class(ctx, work):
    """Where the definitions come from: a forced include (-include) that defaults a macro the command line sets with -D,
    and headers found through a search directory that lies OUTSIDE the analysis root (angle, quote and computed form).
    The conditions use function-like macros from those headers; gcc with the same options is the oracle."""
    acc = ctx.acc
    main = "\n".join([
        "cbi_m_m_1;", "#include <cfg/version.h>", "#include OPTS", "#if SCALE(2) == 2 * LEVEL", "cbi_m_m_5;", "#else", "cbi_m_m_7;", "#endif",
        "#if TWICE(LEVEL) == 6", "cbi_m_m_10;", "#else", "cbi_m_m_12;", "#endif",
        "#if CFG_AT_LEAST(2, 1) && OPT_LEVEL == 3", "cbi_m_m_15;", "#else", "cbi_m_m_17;", "#endif",
        "#if LEVEL == 3", "cbi_m_m_20;", "#elif LEVEL == 1", "cbi_m_m_22;", "#else", "cbi_m_m_24;", "#endif", ""])
    config_h = "#ifndef LEVEL\n#define LEVEL 1\n#endif\n#define SCALE(x) ((x)*LEVEL)\n#define TWICE(x) ((x)+(x))\n"
    version_h = "#define CFG_MAJOR 2\n#define CFG_MINOR 3\n#define CFG_AT_LEAST(a, b) (CFG_MAJOR > (a) || (CFG_MAJOR == (a) && CFG_MINOR >= (b)))\n" \
                "#define OPTS <cfg/options.h>\n"
    options_h = "#define OPT_LEVEL 3\n"
    idx = 0
    for level in (None, "LEVEL=3", "LEVEL=1", "LEVEL=7", "LEVEL"):
        for hdr_where in ("inside", "outside"):
            for kind in ("I", "isystem"):
                for inc_sp in ("abs", "rel"):
                    idx += 1
                    if not ctx.mine(idx):
                        continue
                    d = os.path.join(work, f"layout{idx}")
                    shutil.rmtree(d, ignore_errors=True)
                    root = os.path.join(d, "root")
                    hdr = os.path.join(root, "third") if hdr_where == "inside" else os.path.join(d, "elsewhere")
                    os.makedirs(os.path.join(root, "src"))
                    os.makedirs(os.path.join(hdr, "cfg"))
                    for path, text in ((os.path.join(root, "src", "main.c"), main), (os.path.join(root, "config.h"), config_h),
                                       (os.path.join(hdr, "cfg", "version.h"), version_h), (os.path.join(hdr, "cfg", "options.h"), options_h)):
                        with open(path, "w") as f:
                            f.write(text)
                    src = os.path.join(root, "src", "main.c")
                    inc = os.path.join(root, "config.h") if inc_sp == "abs" else "../config.h"
                    defines = [level] if level else []
                    g = gcc.preprocess(src, defines=defines, search=[(kind, hdr)], includes=[inc], cwd=os.path.dirname(src))
                    if not g["ok"]:
                        acc.excluded("gcc-diagnostic", cls="layout")
                        continue
                    cells = ["layout:forced-include-defaults-a-command-line-macro" if level else "layout:forced-include",
                             "layout:headers-" + hdr_where + "-root"]
                    case = {"defines": defines, "headers": hdr_where, "kind": kind, "include": inc}
                    try:
                        from codebasin import config
                        argv = ["-D" + x for x in defines] + ["-I" if kind == "I" else "-isystem", hdr, "-include", inc, "-c", src]
                        cfgs = [c for c in config.ArgumentParser("gcc").parse_args(argv) if c.pass_name == "default"]
                        c0 = cfgs[0]
                        entry = {"file": src, "defines": list(c0.defines), "include_paths": list(c0.include_paths), "include_files": list(c0.include_files)}
                        state, _ = cbi.run_find(root, {"p": [entry]})
                        used = cbi.used_lines(state, src, "p")
                        lines = main.split("\n")
                        got = {ln for ln in used if lines[ln - 1].startswith("cbi_m_")}
                        want = {int(m.rsplit("_", 1)[1]) for m in g["markers"] if m.startswith("cbi_m_m_")}
                        ok, obs = got == want, sorted(got)
                    except Exception as e:
                        ok, obs, want = False, f"{type(e).__name__}: {e}", set()
                    if ok:
                        acc.held(cells=cells, cls="layout", nontrivial=case)
                    else:
                        acc.violated({"input": case, "witness": dict(case, expected=sorted(want), observed=obs)}, cells=cells, cls="layout", nontrivial=case)


COMMENT_ENDS = ["*", "**", "/", " x", "* ", "/*", "*/ /*", "***", "/ *", "x*"]


def comment_layout_class(ctx, work):
    """Definitions and conditions written with a block comment that spans several physical lines INSIDE the directive,
    tokens following the comment on its last line; the comment's non-final lines end in every combination of `*`, `/`
    and blanks, and the opener may be `/**`.  The comment is one blank for a preprocessor: the token sequence of the
    directive must not change.  Oracle: gcc on the same file."""
    acc = ctx.acc
    os.makedirs(work, exist_ok=True)
    idx = 0
    for end in COMMENT_ENDS:
        for opener in ("/*", "/**", "/* lanes"):
            for mid in (0, 1, 2):
                idx += 1
                if not ctx.mine(idx):
                    continue
                def com(tag):
                    lines_ = [f"{opener} {tag} {end}"] + [f"   more {end}" for _ in range(mid)] + [" * last */"]
                    return "\n".join(lines_)
                parts = ["cbi_m_c_0;",
                         f"#define WIDTH 4 {com('a')} * 2",
                         "#if WIDTH == 8", "cbi_m_c_1;", "#else", "cbi_m_c_2;", "#endif",
                         f"#define SCALE(x) (x) {com('b')} + 1",
                         "#if SCALE(2) == 3", "cbi_m_c_3;", "#else", "cbi_m_c_4;", "#endif",
                         "#define TWICE(x) ((x) + (x))",
                         f"#if TWICE(0) {com('c')} == 0", "cbi_m_c_5;", "#else", "cbi_m_c_6;", "#endif",
                         f"#if 0 {com('d')} + 1", "cbi_m_c_7;", f"#elif SCALE(1) {com('e')} == 2 {com('f')} && WIDTH", "cbi_m_c_8;", "#else", "cbi_m_c_9;", "#endif",
                         f"#undef WIDTH {com('g')}", "#ifdef WIDTH", "cbi_m_c_10;", "#else", "cbi_m_c_11;", "#endif",
                         # a backslash-newline inside a directive is deleted without a trace: between a macro name and
                         # its `(`, inside a number, inside a name
                         "#define DOUBLE\\", "(x) ((x) * 2)", "#if DOUBLE(4) == 8", "cbi_m_c_12;", "#else", "cbi_m_c_13;", "#endif",
                         "#define VALUE 1\\", "0", "#if VALUE == 10", "cbi_m_c_14;", "#else", "cbi_m_c_15;", "#endif",
                         "#define LO\\", "NG(a) a\\", "+a", "#if LONG(3) == 6 && defined(LO\\", "NG)", "cbi_m_c_16;", "#else", "cbi_m_c_17;", "#endif", ""]
                text = "\n".join(parts)
                src = os.path.join(work, "comment_layout.c")
                with open(src, "w") as f:
                    f.write(text)
                g = gcc.preprocess(src)
                if not g["ok"]:
                    acc.excluded("gcc-diagnostic", cls="comment-layout")
                    continue
                cells = ["layout:multi-line-comment-inside-directive-followed-by-tokens", "layout:splice-inside-a-token-of-a-directive"]
                if end.rstrip().endswith("*"):
                    cells.append("layout:comment-line-ending-in-star")
                case = {"text": text}
                try:
                    state, _ = cbi.run_find(work, {"p": [cbi.entry(src)]})
                    used = cbi.used_lines(state, src, "p")
                    lines = text.split("\n")
                    got = {lines[ln - 1] for ln in used if lines[ln - 1].startswith("cbi_m_c_")}
                    want = {m + ";" for m in g["markers"]}
                    ok, obs = got == want, sorted(got)
                except Exception as e:
                    ok, obs, want = False, f"{type(e).__name__}: {e}", set()
                if ok:
                    acc.held(cells=cells, cls="comment-layout", nontrivial=case)
                else:
                    acc.violated({"input": case, "witness": dict(case, expected=sorted(want), observed=obs)}, cells=cells, cls="comment-layout", nontrivial=case)


IMPLICIT_DEFS = [(["-DSCALE(x)=x + 1", "-DLIMIT=2 + 2"], ["SCALE(2) == 3", "LIMIT == 4", "LIMIT * 2 == 6", "SCALE(LIMIT) == 5"]),
                 (["-D", "ADD(a, b)=a + b", "-DSPACED=  7  "], ["ADD(1, 2) * 2 == 5", "SPACED == 7", "ADD(SPACED, 1) == 8"]),
                 (["-DSTR(x)=#x", "-DTXT=\"a b\"", "-DCH=' '"], ["defined(TXT) && defined(STR)", "CH == 32", "CH + 1 == 33"]),
                 (["-DPICK(a, b, ...)=b __VA_ARGS__", "-DEMPTY="], ["PICK(1, 2, + 3) == 5", "defined(EMPTY)", "PICK(1, 2) == 2", "EMPTY + 1 == 1"]),
                 (["-DQ='\"'", "-DSEMI=1 + 2", "-DBS='\\\\'"], ["Q == 34", "SEMI == 3", "BS == 92"]),
                 (["-DNEG=- 1", "-DTERN=1 ? 2 : 3", "-DSH=1 << 4"], ["NEG + 1 == 0", "TERN == 2", "SH == 16", "(TERN) * SH == 32"])]


def implicit_option_class(ctx, work):
    """-D definitions given as IMPLICIT options of the compiler (the `options` key of <cwd>/.cbi/config), with blanks,
    quotes and operators in the value: each list element is one argument, exactly as if it had been appended to the
    command line.  Compared per macro with the same options given explicitly (token streams of the definitions), and
    the truth of conditions using them with gcc given the same -D options."""
    from codebasin import config
    import json
    acc = ctx.acc
    os.makedirs(work, exist_ok=True)
    old = os.getcwd()
    try:
        for k, (opts, uses) in enumerate(IMPLICIT_DEFS):
            if not ctx.mine(k):
                continue
            shutil.rmtree(os.path.join(work, ".cbi"), ignore_errors=True)
            os.makedirs(os.path.join(work, ".cbi"))
            with open(os.path.join(work, ".cbi", "config"), "w") as f:
                f.write("[compiler.mycc]\noptions = [%s]\n" % ", ".join(json.dumps(o) for o in opts))
            os.chdir(work)
            config._load_compilers()
            problems = []
            imp = [c for c in config.ArgumentParser("mycc").parse_args(["-c", "x.c"]) if c.pass_name == "default"][0]
            exp = [c for c in config.ArgumentParser("gcc").parse_args(opts + ["-c", "x.c"]) if c.pass_name == "default"][0]
            if list(imp.defines) != list(exp.defines):
                problems.append({"kind": "implicit options give other definitions than the same options given explicitly",
                                 "options": opts, "explicit": list(exp.defines), "implicit": list(imp.defines)})
            # end to end against gcc
            lines = []
            for i, u in enumerate(uses):
                lines += [f"#if {u}", f"cbi_m_i_{i};", "#else", f"cbi_m_j_{i};", "#endif"]
            src = os.path.join(work, "implicit.c")
            with open(src, "w") as f:
                f.write("\n".join(lines) + "\n")
            g = gcc.preprocess(src, extra=opts)
            cells = ["definitions-as-implicit-options"]
            if g["ok"] and not problems:
                try:
                    entry = {"file": src, "defines": list(imp.defines), "include_paths": [], "include_files": []}
                    state, _ = cbi.run_find(work, {"p": [entry]})
                    used = cbi.used_lines(state, src, "p")
                    got = {lines[ln - 1] for ln in used if lines[ln - 1].startswith("cbi_m_")}
                    want = {m + ";" for m in g["markers"]}
                    if got != want:
                        problems.append({"kind": "conditions using implicitly defined macros", "options": opts,
                                         "missing": sorted(want - got), "extra": sorted(got - want)})
                    cells.append("definitions-as-implicit-options:gcc-compared")
                except Exception as e:
                    problems.append({"kind": "exception", "observed": f"{type(e).__name__}: {e}"})
            case = {"options": opts}
            if problems:
                acc.violated({"input": case, "witness": {"options": opts, "problems": problems}}, cells=cells, cls="implicit", nontrivial=case)
            else:
                acc.held(cells=cells, cls="implicit", nontrivial=case)
    finally:
        os.chdir(old)
        shutil.rmtree(os.path.join(work, ".cbi"), ignore_errors=True)
        try:
            config._load_compilers()
        except Exception:
            pass


REEVAL = [
    (["#define THIRD(a,b,c,...) c", "#define COUNT(...) THIRD(__VA_ARGS__, 2, 1, 0)"], ["COUNT(x, y) == 2", "COUNT(x) == 1"]),
    (["#define SUM(a, rest...) a + rest"], ["SUM(1, 2 + 40) == 43", "SUM(1, 2) == 3"]),
    (["#define FIRST(a, ...) a", "#define REST(a, ...) __VA_ARGS__"], ["FIRST(7, 8, 9) == 7", "REST(7, 8) == 8"]),
    (["#define CAT(a,b) a##b", "#define V12 5", "#define STR(x) #x"], ["CAT(V,12) == 5", "CAT(1,2) == 12"]),
    (["#define ID(x) x", "#define foo foo + 1"], ["ID(1) == 1", "defined(foo) && ID(2) == 2"]),
]


def reeval_class(ctx, work):
    """The same #define directives are evaluated several times in one run (a header included by two translation
    units of one platform and by a second platform): every evaluation must behave like the first (gcc per TU)."""
    acc = ctx.acc
    for i, (defs, exprs) in enumerate(REEVAL):
        if not ctx.mine(i):
            continue
        d = os.path.join(work, f"reeval{i}")
        shutil.rmtree(d, ignore_errors=True)
        os.makedirs(d)
        hdr = defs[:]
        for k, e in enumerate(exprs):
            hdr += [f"#if {e}", f"cbi_m_h_{k}_t;", "#else", f"cbi_m_h_{k}_f;", "#endif"]
        with open(os.path.join(d, "v.h"), "w") as f:
            f.write("\n".join(hdr) + "\n")
        for t in ("t0.c", "t1.c", "t2.c"):
            with open(os.path.join(d, t), "w") as f:
                f.write('cbi_m_%s_1;\n#include "v.h"\ncbi_m_%s_3;\n' % (t[:2], t[:2]))
        g = gcc.preprocess(os.path.join(d, "t0.c"))
        if not g["ok"]:
            acc.excluded("gcc-diagnostic", cls="reeval")
            continue
        hl = open(os.path.join(d, "v.h")).read().split("\n")
        want = {n + 1 for n, ln in enumerate(hl) if ln.startswith("cbi_m_") and ln.rstrip(";") in g["markers"]}
        try:
            conf = {"p0": [cbi.entry(os.path.join(d, "t0.c")), cbi.entry(os.path.join(d, "t1.c"))], "p1": [cbi.entry(os.path.join(d, "t2.c"))]}
            state, _ = cbi.run_find(d, conf)
            lines, _ = cbi.per_line(state, os.path.join(d, "v.h"))
            problems = []
            for p in ("p0", "p1"):
                got = {ln for ln, ps in lines.items() if p in ps and hl[ln - 1].startswith("cbi_m_")}
                if got != want:
                    problems.append({"platform": p, "expected": sorted(want), "observed": sorted(got)})
        except Exception as e:
            problems = [{"observed": f"{type(e).__name__}: {e}"}]
        if problems:
            acc.violated({"input": {"defines": defs, "exprs": exprs}, "witness": {"defines": defs, "exprs": exprs, "problems": problems}},
                         cells=["re-evaluated-define"], cls="reeval")
        else:
            acc.held(cells=["re-evaluated-define"], cls="reeval", nontrivial=(defs, exprs))


def run_shard(ctx):
    b = bounds(ctx.tier)
    drv = Driver()
    work = ctx.subdir("w")
    batch = []
    for i, (defs, text) in enumerate(HOSTILE):
        if ctx.mine(i):
            extra = list(HOSTILE_CELLS.get(i, []))
            if len(defs) > 100:
                extra.append("deep-chain")
            if "XSTR(a ID(b))" in text:
                # verified by hand to agree with gcc token for token and blank for blank: whatever makes it differ is
                # not one of the recorded findings (their classifiers look at the kind of difference, not at its cause)
                extra.append("strict:hand-checked-entry")
            batch.append((defs, text, "E", extra))
    process_batch(ctx, drv, batch, work)
    rng = ctx.rng("random")
    batch = []
    for i in range(b["random"]):
        defs, text = gen_table(rng)
        if not ctx.mine(i):
            continue
        extra = []
        nv = re.findall(r"F\d\(([^()]*)\)", text)
        batch.append((defs, text, "R", extra))
        if len(batch) >= b["batch"]:
            process_batch(ctx, drv, batch, work)
            batch = []
    if batch:
        process_batch(ctx, drv, batch, work)
    arith_class(ctx, drv, work)
    layout_class(ctx, os.path.join(ctx.scratch, "layout"))
    comment_layout_class(ctx, os.path.join(ctx.scratch, "comment-layout"))
    implicit_option_class(ctx, os.path.join(ctx.scratch, "implicit"))
    include_class(ctx, work)
    reeval_class(ctx, work)


def replay(record, ctx):
    drv = Driver()
    inp = record["input"]
    if "text" not in inp:
        return {"verdict": "unknown"}
    work = ctx.subdir("w")
    bad = violates(drv, inp["defines"], inp["text"], work)
    return {"verdict": "violated" if bad else "held"}
