"""
C01 -- conditional inclusion matches what a real C preprocessor would do.

Monitored execution: finder.find() on a one-file code base per (program, -D
assignment); observed: per-line attribution, the evaluation trace (H-eval),
the final macro table (H-platform).  Oracle: gcc -E markers, gcc -dM.
"""

import os
import re
import traceback

from cbimon import cbi, hooks
from cbimon.gen import cprog
from cbimon.oracles import gcc

PROP = "C01"
RULE = ("program = nested #if/#ifdef/#ifndef/#elif/#else chains + object-like #define/#undef + marker code lines, "
        "one marker at the start of every group; case = (program, list of -D strings). Enumerated: every forest of "
        "<=N chains / depth <=D / <=2 #elif / optional #else, each branch controlled by defined(K_i) over distinct "
        "names, crossed with all 2^k assignments. Random: <=60-line programs, depth <=8, expressions over 4 macros, "
        "-D in {absent,-DN,-DN=,-DN=0,1,2,-DN=M}; stress: depth 64 / 2000 lines. Excluded: gcc exits non-zero or "
        "prints any diagnostic. Non-trivial: >=1 chain and >=1 line gcc skips. Distinct by (text, defines).")
ASSUMPTIONS = [
    "gcc 12.2 -E -x c -std=gnu17 -nostdinc -undef is the conforming preprocessor",
    "a group's liveness is read from the marker on its first line",
    "directive lines of a chain are expected iff the group containing the chain is live; #define/#undef iff own group live",
    "#if expressions are restricted to forms outside the C02 arithmetic corner cases (C02 decides those)",
]
REQUIRED_HOOKS = ["H-eval", "H-platform"]


def bounds(tier):
    if tier == "quick":
        return {"enum_chains": 2, "enum_depth": 2, "random": 1600, "stress": 4}
    return {"enum_chains": 3, "enum_depth": 3, "random": 40000, "stress": 40}


def exhaustive(tier):
    return True


def required_cells(tier):
    cells = []
    for pos in ("if", "elif1", "elif2+", "else", "none"):
        cells.append(f"taken:{pos}/parent:live")
    cells += ["chain-in-dead-parent:plain", "chain-in-dead-parent:with-elif", "chain-in-dead-parent:with-else"]
    cells += ["depth:1", "depth:2", "depth:3+", "define-in-dead-group", "define-in-live-group", "undef-live",
              "elif-after-taken-branch", "directive-continuation", "empty-group", "class:enum", "class:random",
              "class:stress", "table-compared", "via-cli", "non-utf8-bytes", "block-comment-in-directive", "two-platforms",
              "file-includes-itself", "null-directive", "benign-directive", "form-feed-and-other-non-line-breaks",
              "crlf-line-ends", "crlf-with-continuation-in-directive", "malformed-directive-in-skipped-group",
              "line-longer-than-read-buffers", "utf-8-byte-order-mark", "nested-headers-with-unknown-extension",
              "malformed-conditional-in-skipped-group", "class:command-line-undef", "command-line:-D-then-U", "command-line:-U-then-D",
              "macro-chain-depth>=45", "macro-chain-depth>=150", "macro-chain-depth>=190",
              "layout:directive-after-multi-line-comment", "layout:blank-continuation-lines-before-directive", "layout:escape-sequences-of-every-length"]
    return cells


def cell_scan(r, live):
    """Non-vacuity cells from the rendered program and gcc's live markers."""
    cells = set()
    liveset = set(live)

    def glive(g):
        if g == 0:
            return True
        m = r.groups[g]["marker"]
        return None if m is None else (m in liveset)

    depth = {0: 0}
    for g in sorted(r.groups):
        if g:
            depth[g] = depth[r.groups[g]["parent"]] + 1
    # chains: reconstruct from items in order
    stack = []
    gi = 0
    for it in r.items:
        if it["kind"] == "chain":
            kw = it["kw"]
            if kw in ("if", "ifdef", "ifndef"):
                stack.append({"parent": it["group"], "branches": []})
            if kw != "endif":
                gi += 1
                stack[-1]["branches"].append((kw, gi))
                if r.groups[gi]["marker"] is None:
                    cells.add("empty-group")
            else:
                ch = stack.pop()
                pl = glive(ch["parent"])
                taken = "none"
                ne = 0
                for kw2, g in ch["branches"]:
                    if kw2 == "elif":
                        ne += 1
                    if glive(g):
                        taken = {"if": "if", "ifdef": "if", "ifndef": "if", "else": "else"}.get(
                            kw2, "elif1" if ne == 1 else "elif2+")
                        pos = [x for _, x in ch["branches"]].index(g)
                        if any(k3 == "elif" for k3, _ in ch["branches"][pos + 1:]):
                            cells.add("elif-after-taken-branch")
                        break
                if pl:
                    if all(r.groups[g]["marker"] is not None for _, g in ch["branches"]) or taken != "none":
                        cells.add(f"taken:{taken}/parent:live")
                elif pl is False:
                    kws = [k for k, _ in ch["branches"]]
                    cells.add("chain-in-dead-parent:" + ("with-elif" if "elif" in kws else
                                                         "with-else" if "else" in kws else "plain"))
                d = depth[ch["parent"]] + 1
                cells.add("depth:" + (str(d) if d < 3 else "3+"))
            if len(it["lines"]) > 1:
                cells.add("directive-continuation")
        elif it["kind"] == "def":
            gl = glive(it["group"])
            if it["op"] == "define" and gl is False:
                cells.add("define-in-dead-group")
            if it["op"] == "define" and gl:
                cells.add("define-in-live-group")
            if it["op"] == "undef" and gl:
                cells.add("undef-live")
            if len(it["lines"]) > 1:
                cells.add("directive-continuation")
    return cells


def norm_body(s):
    return "".join(s.split())


BENIGN_DIRECTIVES = ["#", "  #", "# /* null directive */", "#pragma omp parallel for", "#pragma unroll(4)", "#line 100",
                     "#ident \"v1\"", "# pragma region x", "#pragma STDC FP_CONTRACT ON"]


ODD_IN_DEAD_CODE = ["## heading", "##", "#@x", "#!/bin/sh", "#123", "#\"str\"", "#'c'", "#(", "#;", "#=", "#include", "#include <", "#define",
                    "#if", "#elif", "#undef", "#ifdef", "#define 1x", "#if 1 +", "#if )(", "#line", "#unknown garbage ' \" (", "#pragma once"]


def sprinkle(rng, body, p=0.2):
    """Insert directives that select nothing (null directive, #pragma, #line, #ident) between the items of a program,
    at every nesting level: a conforming preprocessor accepts them silently wherever they stand."""
    out = []
    for it in body:
        if rng.random() < p:
            out.append(["directive", rng.choice(BENIGN_DIRECTIVES)])
        if rng.random() < p / 2:
            # a skipped group may hold anything that looks like a directive: a preprocessor only reads its first word there
            odd = rng.choice(ODD_IN_DEAD_CODE)
            if not odd.startswith(("#if", "#elif", "#ifdef")):       # (conditionals nest even when skipped)
                out.append(["chain", [["if", "0", [["code"], ["directive", odd], ["code"]]]]])
            elif not odd.startswith("#elif"):
                # a conditional that could not be evaluated still opens a group that its own #endif closes
                out.append(["chain", [["if", "0", [["code"], ["directive", odd], ["code"], ["directive", "#else"], ["code"],
                                                    ["directive", "#endif"], ["code"]]]]])
        if it[0] == "chain":
            out.append(["chain", [[kw, e, sprinkle(rng, sub, p)] for kw, e, sub in it[1]]])
        else:
            out.append(it)
    return out


def self_including(rng, ast):
    """The translation unit includes itself once: the first pass defines SELFPASS and includes main.c in the middle of
    its body, the nested pass takes the #else branch and then runs through the rest of the file."""
    k = rng.randint(0, len(ast))
    inner = [["define", "SELFPASS", None]] + ast[:k] + [["include", "q", "main.c"]] + [["code"]]
    other = [["code"]] + ([["define", rng.choice(cprog.POOL), "1"]] if rng.random() < 0.5 else []) + [["code"]]
    return [["chain", [["ifndef", "SELFPASS", inner], ["else", None, other]]]] + ast[k:]


def render_case(case):
    import random as _r
    style = case.get("style")
    return cprog.render(case["ast"], style=style, rng=_r.Random(case.get("sseed", 0)) if style else None)


def run_case(ctx, workdir, text, defines, r, cls, check_table=True, case=None):
    """Execute one case through the real code and check it; records into ctx.acc."""
    acc = ctx.acc
    path = os.path.join(workdir, "main.c")
    if case is not None and case.get("latin1"):
        # ISO-8859-1 bytes in comments: accepted silently by gcc, not valid UTF-8
        lines_ = text.split("\n")
        lines_[0] += "  /* Andr\xe9 \xa9 2001 */"
        for k_ in range(2, len(lines_)):
            if lines_[k_].strip() and not lines_[k_].rstrip().endswith(("\\", "*")) and "/*" not in lines_[k_]:
                lines_[k_] += " // \xfc\xdf"
                break
        text = "\n".join(lines_)
        with open(path, "w", encoding="latin-1") as f:
            f.write(text)
    else:
        if case is not None and case.get("formfeed"):
            # form feed / vertical tab are white space; NEL and U+2028 sit inside comments: none of them ends a line
            lines_ = text.split("\n")
            for k_ in range(len(lines_)):
                if lines_[k_].strip() and not lines_[k_].rstrip().endswith(("\\", "*")) and "/*" not in lines_[k_] and "//" not in lines_[k_]:
                    lines_[k_] += [" \f", "\v", " /* page\fbreak */", " // \x85 \u2028 x", "\f /* \x1c */"][k_ % 5] if k_ % 3 == 0 else ""
            text = "\n".join(lines_)
        if case is not None and case.get("longline"):
            # one physical line far longer than any read buffer (a generated table on one line)
            lines_ = text.split("\n")
            for k_ in range(len(lines_)):
                if lines_[k_].startswith("cbi_m_"):
                    lines_[k_] += " int table[] = {" + ", ".join(str(v_ % 97) for v_ in range(9000)) + "};"
                    break
            text = "\n".join(lines_)
        with open(path, "w", newline="", encoding="utf-8-sig" if case is not None and case.get("bom") else "utf-8") as f:
            f.write(text.replace("\n", "\r\n") if case is not None and case.get("crlf") else text)
        if case is not None and case.get("oddext"):
            # headers whose extension says nothing about their language, nested two deep
            with open(os.path.join(workdir, "opcodes.def"), "w") as f:
                f.write("#include \"opcodes_ext.tbl\"\n#define HAVE_OPCODES 1\n")
            with open(os.path.join(workdir, "opcodes_ext.tbl"), "w") as f:
                f.write("#define NUM_OPCODES 2\n")
    g = gcc.preprocess(path, defines=defines)
    if not g["ok"]:
        acc.excluded("gcc-diagnostic", cls=cls)
        return "excluded"
    exp, unknown = cprog.expected_lines(r, g["markers"])
    cells = cell_scan(r, g["markers"])
    cells.add("class:" + cls)
    if case is not None and case.get("latin1"):
        cells.add("non-utf8-bytes")
    if " /* note *\n" in text:
        cells.add("block-comment-in-directive")
    if (case or {}).get("selfinc"):
        cells.add("file-includes-itself")
    if (case or {}).get("formfeed") and "\f" in text:
        cells.add("form-feed-and-other-non-line-breaks")
    if (case or {}).get("longline"):
        cells.add("line-longer-than-read-buffers")
    if (case or {}).get("bom"):
        cells.add("utf-8-byte-order-mark")
    if (case or {}).get("oddext"):
        cells.add("nested-headers-with-unknown-extension")
    if (case or {}).get("crlf"):
        cells.add("crlf-line-ends")
        if "\\\n" in text:
            cells.add("crlf-with-continuation-in-directive")
    if re.search(r"^\s*#\s*(/\*.*\*/)?\s*$", text, re.M):
        cells.add("null-directive")
    if re.search(r"^\s*#\s*(pragma|line|ident)", text, re.M):
        cells.add("benign-directive")
    if re.search(r"^##|^#[@!(;=\"']|^#\d|^#(include|define|undef|line)\s*$|^#define 1x", text, re.M):
        cells.add("malformed-directive-in-skipped-group")
    if re.search(r"^#(if|ifdef|if 1 \+|if \)\()\s*$", text, re.M):
        cells.add("malformed-conditional-in-skipped-group")
    all_lines = set()
    for it in r.items:
        all_lines.update(it["lines"])
    nontrivial = (text, sorted(defines)) if (r.n_chains >= 1 and exp != all_lines) else None
    witness = {"text": text, "defines": list(defines)}
    full_input = dict(case or {}, text=text, defines=list(defines))
    problems = []
    # a second platform with its own -D assignment is analysed in the same run (platforms must not interact)
    defines2 = case.get("defines2") if case else None
    exp2 = None
    if defines2 is not None:
        g2 = gcc.preprocess(path, defines=defines2)
        if g2["ok"]:
            exp2, _ = cprog.expected_lines(r, g2["markers"])
            cells.add("two-platforms")
        else:
            defines2 = None
    try:
        with hooks.monitor() as ev:
            conf = {"p": [cbi.entry(path, defines)]}
            if defines2 is not None:
                conf = {"q": [cbi.entry(path, defines2)], "p": [cbi.entry(path, defines)]}
            state, _ = cbi.run_find(workdir, conf)
            lines, dup = cbi.per_line(state, path)
    except Exception as e:
        tb = traceback.extract_tb(e.__traceback__)
        inner = [f"{os.path.basename(fr.filename)}:{fr.lineno}:{fr.name}" for fr in tb if "/codebasin/" in fr.filename][-1:]
        problems.append({"kind": "exception", "observed": f"{type(e).__name__}: {e}", "at": inner})
        acc.violated({"input": full_input, "witness": dict(witness, **problems[0])},
                     mechanism=classify(problems[0], text, defines, workdir), cells=cells, nontrivial=nontrivial, cls=cls)
        return "violated"
    for k, v in ev.counts.items():
        acc.hook(k, v)
    obs = {ln for ln, ps in lines.items() if "p" in ps}
    if obs != exp:
        problems.append({"kind": "attribution", "missing": sorted(exp - obs)[:20], "extra": sorted(obs - exp)[:20]})
    if exp2 is not None:
        obs2 = {ln for ln, ps in lines.items() if "q" in ps}
        if obs2 != exp2:
            problems.append({"kind": "attribution-second-platform", "defines": defines2, "missing": sorted(exp2 - obs2)[:20], "extra": sorted(obs2 - exp2)[:20]})
    if dup:
        problems.append({"kind": "line-counted-twice", "lines": dup[:10]})
    # trace obligation: #define/#undef evaluated exactly at live sites, in source order
    want = [(it["op"], it["lines"][0]) for it in r.items if it["kind"] == "def" and it["lines"][0] in exp]
    # only the evaluations of the last translation unit (platform "p"): those after the last top-level associate
    last_assoc = max([i for i, e in enumerate(ev.events) if e[0] == "assoc" and e[1] == 0] or [0])
    got = [("define" if e[1] == "DefineNode" else "undef", e[3]) for e in ev.events[last_assoc:]
           if e[0] == "eval" and e[1] in ("DefineNode", "UndefNode")]
    if want != got and not (case or {}).get("selfinc") and not (case or {}).get("oddext"):      # with a nested pass over the same file the order interleaves
        problems.append({"kind": "define-undef-trace", "expected": want[:30], "observed": got[:30]})
    # elif evaluated after a taken branch (advisory counter) -- consequences are what is judged
    # final macro table
    if check_table:
        ok, table = gcc.final_macros(path, defines=defines)
        if ok and ev.platforms:
            names = set(cprog.POOL) | {f"K{i}" for i in range(12)}
            gtab = {n: norm_body(b) for n, (params, b) in table.items() if n in names}
            plat = ev.platforms[-1]
            ctab = {}
            for n, m in plat._definitions.items():
                if n in names:
                    ctab[n] = norm_body(hooks.macro_spelling(m)[1])
            if gtab != ctab:
                problems.append({"kind": "final-macro-table", "expected": gtab, "observed": ctab})
            cells.add("table-compared")
    # "#elif true after taken" cell: an elif group that is dead although its own condition would hold is
    # approximated by: chain took an earlier branch and a later elif exists
    for c in list(cells):
        pass
    if any(e[0] == "eval" and e[1] == "ElIfNode" for e in ev.events):
        acc.extra["elif-evaluations"] += 1
    if problems:
        p0 = problems[0]
        acc.violated({"input": full_input, "witness": dict(witness, problems=problems)},
                     mechanism=classify(p0, text, defines, workdir), cells=cells, nontrivial=nontrivial, cls=cls)
        return "violated"
    if case is not None and case.get("cli"):
        # the boundary users see: cbi-cov compute on the same file and command
        import json
        from cbimon import cli
        db = os.path.join(workdir, "db.json")
        with open(db, "w") as f:
            json.dump([{"file": path, "directory": workdir, "arguments": ["gcc"] + ["-D" + d for d in defines] + ["-c", path]}], f)
        covp = os.path.join(workdir, "cov.json")
        rc, out, err = cli.run("cbi-cov", ["compute", "-S", workdir, "-o", covp, db], workdir)
        acc.hook("cli-runs")
        if rc != 0:
            problems.append({"kind": "cbi-cov failed", "stderr": err[-300:]})
        else:
            cov = {e["file"]: e for e in json.load(open(covp))}
            got = set(cov.get("main.c", {}).get("used_lines", []))
            cells.add("via-cli")
            if got != exp:
                problems.append({"kind": "cbi-cov used_lines", "missing": sorted(exp - got)[:20], "extra": sorted(got - exp)[:20]})
        for fn in ("db.json", "cov.json", "cbi.log"):
            try:
                os.unlink(os.path.join(workdir, fn))
            except OSError:
                pass
        if problems:
            acc.violated({"input": full_input, "witness": dict(witness, problems=problems)}, cells=cells, nontrivial=nontrivial, cls=cls)
            return "violated"
    acc.held(cells=cells, nontrivial=nontrivial, cls=cls,
             sample={"text": text, "defines": list(defines), "used_lines": sorted(exp)})
    return "held"


def classify(problem, text, defines, workdir):
    return None


def elif_after_taken_cell(r, live):
    """True if some chain has a live earlier branch followed by an #elif."""
    return False


UNDEF_PROGRAM = [["code"],
                 ["chain", [["if", "A == 1", [["code"]]], ["elif", "defined(A)", [["code"]]], ["else", None, [["code"]]]]],
                 ["chain", [["ifdef", "B", [["code"]]], ["else", None, [["code"]]]]],
                 ["chain", [["if", "defined(C) && C == 3", [["code"]]], ["else", None, [["code"]]]]],
                 ["chain", [["ifdef", "AB", [["code"]]], ["else", None, [["code"]]]]],
                 ["chain", [["ifdef", "CC", [["code"]]], ["else", None, [["code"]]]]]]
UNDEF_COMMANDS = [["-DA=1", "-UA"], ["-UA", "-DA=1"], ["-U", "B", "-DB"], ["-DB", "-U", "B"], ["-DA", "-DB=2", "-UA", "-DA=1", "-UC", "-DC=3"],
                  ["-DC=3", "-UCC", "-UA"], ["-DAB=1", "-UA", "-DCC", "-UC"], ["-DA=1", "-DA=1", "-UA"], ["-UA", "-UB", "-UC"],
                  ["-DA=2", "-UA", "-DA=1", "-DB", "-UB", "-DB", "-UB"], ["-DC=3", "-U", "C", "-D", "C=3"], ["-D", "A=1", "-U", "AB", "-DAB"]]


def command_line_undef_scenarios(ctx, workdir):
    """-U on the compile command: a compiler applies -D and -U from left to right, so the LAST option naming a macro
    decides.  Expected: gcc -E with the very same options.  Observed: the configuration the real front end
    (config.load_database on a one-entry database, `arguments` and `command` forms) derives, run through finder.find."""
    import json
    import shlex
    from codebasin import config
    acc = ctx.acc
    r = cprog.render(UNDEF_PROGRAM)
    workdir = ctx.subdir("undef")        # a code base of its own (finder.find parses every file it finds)
    path = os.path.join(workdir, "undef.c")
    with open(path, "w") as f:
        f.write(r.text)
    for k, opts in enumerate(UNDEF_COMMANDS):
        g = gcc.preprocess(path, extra=opts)
        if not g["ok"]:
            acc.oracle_disagreement({"options": opts, "gcc_stderr": g["stderr"][:200]})
            continue
        exp, _ = cprog.expected_lines(r, g["markers"])
        cells = {"class:command-line-undef"}
        seen = {}
        for o in opts:
            if o.startswith(("-D", "-U")) and len(o) > 2:
                nm = o[2:].split("=")[0]
                cells.add("command-line:-D-then-U" if o[1] == "U" and seen.get(nm) == "D" else
                          "command-line:-U-then-D" if o[1] == "D" and seen.get(nm) == "U" else "command-line:-U-or-D")
                seen[nm] = o[1]
        argv = ["gcc"] + opts + ["-c", path]
        for form in ("arguments", "command"):
            e = {"file": path, "directory": workdir}
            e[form] = argv if form == "arguments" else shlex.join(argv)
            db = os.path.join(workdir, "undef-db.json")
            with open(db, "w") as f:
                json.dump([e], f)
            problems = []
            try:
                conf = [c for c in config.load_database(db, workdir) if c.get("pass_name", "default") == "default"]
                state, _ = cbi.run_find(workdir, {"p": conf})
                lines, _ = cbi.per_line(state, path)
                obs = {ln for ln, ps in lines.items() if "p" in ps}
                if obs != exp:
                    problems.append({"kind": "attribution under -U/-D options", "options": opts, "form": form, "defines_seen_by_the_analysis":
                                     conf[0]["defines"] if conf else None, "missing": sorted(exp - obs), "extra": sorted(obs - exp)})
            except Exception as ex:
                problems.append({"kind": "exception", "options": opts, "observed": f"{type(ex).__name__}: {ex}"})
            if problems:
                acc.violated({"input": {"options": opts, "form": form, "text": r.text}, "witness": {"text": r.text, "problems": problems}},
                             mechanism=classify_undef(opts), cells=cells, nontrivial=(r.text, tuple(opts), form), cls="command-line")
            else:
                acc.held(cells=cells, nontrivial=(r.text, tuple(opts), form), cls="command-line", sample={"options": opts, "used_lines": sorted(exp)})


def classify_undef(opts):
    return None


def deep_chain_case(depth):
    """An object-like macro chain `depth` definitions long (CH<depth> -> ... -> CH0 -> K0), used in #if."""
    ast = [["code"], ["define", "CH0", "K0"]]
    for i in range(1, depth + 1):
        ast.append(["define", f"CH{i}", f"CH{i - 1}"])
    ast += [["chain", [["if", f"CH{depth} == 1", [["code"]]], ["elif", f"CH{depth // 2} + CH{depth} == 4", [["code"]]], ["else", None, [["code"]]]]],
            ["chain", [["ifdef", f"CH{depth}", [["code"]]], ["else", None, [["code"]]]]], ["code"]]
    return ast


LAYOUT_TEXTS = [
    # a directive on the closing line of an indented multi-line block comment (2, 3, 4 lines; a blank line inside)
    "cbi_m_l_1;\n    /* text\n     */ #define FEATURE 1\n#if FEATURE\ncbi_m_l_5;\n#else\ncbi_m_l_7;\n#endif\n",
    "cbi_m_l_1;\n    /* text\n     * more text\n     */ #define FEATURE 1\n#if FEATURE\ncbi_m_l_6;\n#else\ncbi_m_l_8;\n#endif\n",
    "cbi_m_l_1;\n  /* a\n   * b\n   * c\n   */ #if 0\ncbi_m_l_6;\n  /* d\n\n   */ #else\ncbi_m_l_10;\n /*\n\n\n */ #endif\ncbi_m_l_15;\n",
    "cbi_m_l_1;\n\t/* text\n\t\n\t */\t#ifdef X\ncbi_m_l_5;\n#endif\ncbi_m_l_7;\n",
    # blank physical lines joined by backslash-newline in front of a directive
    "cbi_m_l_1;\n \\\n\\\n #ifdef X\ncbi_m_l_5;\n#else\ncbi_m_l_7;\n#endif\n",
    " \\\n \\\n\\\n# define Y 2\n#if Y == 2\ncbi_m_l_6;\n#endif\n \\\n\\\n cbi_m_l_10;\n",
    "/* c */ /* d\n */ /* e\n\n*/ # if 1\ncbi_m_l_5;\n  /* f */ # endif /* g\n */\ncbi_m_l_8;\n",
    # character constants with escape sequences of every length in conditions
    "#if '\\x1' == 1\ncbi_m_l_2;\n#endif\n#if '\\xA' == 10 && '\\xa' == 10\ncbi_m_l_5;\n#endif\n#if '\\x041' == 65 && '\\x0000041' == 'A'\ncbi_m_l_8;\n#endif\n"
    "#if '\\?' == 63 && '\\a' == 7 && '\\v' == 11\ncbi_m_l_11;\n#endif\n#if '\\0' == 0 && '\\7' == 7 && '\\101' == 65 && '\\x7f' == 127\ncbi_m_l_14;\n#else\ncbi_m_l_16;\n#endif\n",
]


def layout_texts_class(ctx):
    """Hand-written layouts whose line classification decides a branch: a directive that follows the end of a multi-line
    comment on the same line, blank continuation lines in front of a directive, escape sequences of unusual length.
    Expected: gcc -E on the same file; X is defined for half of the runs."""
    acc = ctx.acc
    work = ctx.subdir("layout")
    for k, text in enumerate(LAYOUT_TEXTS):
        for defs in ([], ["X"]):
            if (2 * k + len(defs)) % ctx.nshards != ctx.shard:
                continue
            path = os.path.join(work, "layout.c")
            with open(path, "w") as f:
                f.write(text)
            g = gcc.preprocess(path, defines=defs)
            if not g["ok"]:
                acc.oracle_disagreement({"text": text, "gcc_stderr": g["stderr"][:200]})
                continue
            lines = text.split("\n")
            want = set(g["markers"])
            cells = {"class:layout", "layout:" + ("directive-after-multi-line-comment" if k < 4 or k == 6 else "blank-continuation-lines-before-directive" if k < 6 else "escape-sequences-of-every-length")}
            try:
                state, _ = cbi.run_find(work, {"p": [cbi.entry(path, defs)]})
                per, _ = cbi.per_line(state, path)
                got = {lines[ln - 1].strip().rstrip(";") for ln, ps in per.items() if "p" in ps and lines[ln - 1].strip().startswith("cbi_m_l_")}
                problem = None if got == want else {"kind": "attribution", "missing": sorted(want - got), "extra": sorted(got - want)}
            except Exception as e:
                problem = {"kind": "exception", "observed": f"{type(e).__name__}: {e}"}
            if problem:
                acc.violated({"input": {"text": text, "defines": defs}, "witness": {"text": text, "defines": defs, "problems": [problem]}},
                             cells=cells, nontrivial=(text, tuple(defs)), cls="layout")
            else:
                acc.held(cells=cells, nontrivial=(text, tuple(defs)), cls="layout", sample={"text": text, "defines": defs})


def run_shard(ctx):
    acc = ctx.acc
    b = bounds(ctx.tier)
    work = ctx.subdir("tu")
    idx = 0
    # (E) exhaustive chain shapes x all assignments
    for shape in cprog.enum_forests(b["enum_chains"], b["enum_depth"]):
        ast, k = cprog.shape_to_ast(shape)
        r = None
        for mask in range(2 ** k):
            idx += 1
            if not ctx.mine(idx):
                continue
            if r is None:
                r = cprog.render(ast)
            defines = [f"K{i}" if (i % 2 == 0) else f"K{i}=0" for i in range(k) if mask >> i & 1]
            res = run_case(ctx, work, r.text, defines, r, "enum", check_table=(idx % 16 == ctx.shard),
                           case={"ast": ast})
            if res == "held":
                # cell: elif true after taken branch -- decided from the assignment itself
                pass
    # the elif-true-after-taken cell is guaranteed by exhaustiveness; measure it on a probe
    probe = [["chain", [["if", "defined(K0)", [["code"]]], ["elif", "defined(K1)", [["code"]]], ["else", None, [["code"]]]]]]
    if ctx.shard == 0:
        r = cprog.render(probe)
        run_case(ctx, work, r.text, ["K0", "K1"], r, "enum", case={"ast": probe})
        probe2 = [["chain", [["if", "0", [["chain", [["if", "1", [["code"]]], ["elif", "1", [["code"]]]]]]],
                             ["else", None, [["code"]]]]]]
        r = cprog.render(probe2)
        run_case(ctx, work, r.text, [], r, "enum", case={"ast": probe2})
    layout_texts_class(ctx)
    # -U / -D on the command line, in every order (deterministic)
    if ctx.shard == 1 % ctx.nshards:
        command_line_undef_scenarios(ctx, work)
    # long chains of object-like macros, below the expander's documented nesting limit of 200
    for k, depth in enumerate((45, 90, 150, 190)):
        for dk, defs in enumerate((["K0=1"], ["K0=2"], [])):
            if (k * 3 + dk + 2) % ctx.nshards == ctx.shard:
                ast = deep_chain_case(depth)
                r = cprog.render(ast)
                acc.cells[f"macro-chain-depth>={depth}"] += 1
                run_case(ctx, work, r.text, defs, r, "deep-chain", check_table=False, case={"ast": ast})
    # (R) random programs
    rng = ctx.rng("random")
    for i in range(b["random"]):
        ast = cprog.rand_program(rng, max_lines=rng.choice([10, 25, 60]), max_depth=rng.choice([2, 4, 8]))
        defines = cprog.rand_defines(rng)
        defines_b = cprog.rand_defines(rng)
        style_roll = rng.random()
        srng_seed = rng.random()
        if not ctx.mine(i):
            continue
        import random as _r
        xr = _r.Random(srng_seed)
        selfinc = i % 7 == 3
        if i % 5 == 1:
            ast = sprinkle(xr, ast)
        if selfinc:
            ast = self_including(xr, ast)
        style = {"cont": 0.15, "comment": 0.15, "indent": 0.1} if style_roll < 0.5 else None
        case = {"ast": ast, "style": style, "sseed": srng_seed, "cli": (i % 50 == ctx.shard), "latin1": (i % 9 == 4),
                "defines2": defines_b if i % 2 == 0 else None, "selfinc": selfinc, "formfeed": (i % 6 == 2), "crlf": (i % 8 == 5),
                "longline": (i % 10 == 7), "bom": (i % 12 == 9), "oddext": (i % 9 == 1)}
        if case["bom"]:
            # the byte-order mark sits directly in front of a directive on the first line
            while ast and ast[0][0] == "code":
                ast = ast[1:]
            ast = [["bare"], ["chain", [["ifdef", "K0", [["code"]]], ["else", None, [["code"]]]]]] + ast
            case["ast"] = ast
        if case["oddext"]:
            ast = [["include", "q", "opcodes.def"],
                   ["chain", [["if", "NUM_OPCODES == 2 && defined(HAVE_OPCODES)", [["code"]]], ["else", None, [["code"]]]]]] + ast
            case["ast"] = ast
        r = render_case(case)
        if r.n_chains == 0:
            continue
        run_case(ctx, work, r.text, defines, r, "random", case=case)
    # stress: very deep / very long
    srng = ctx.rng("stress")
    for i in range(b["stress"]):
        kind = i % 2
        if kind == 0:
            depth = 64
            body = [["code"]]
            for d in range(depth):
                nm = srng.choice(cprog.POOL)
                body = [["code"], ["chain", [[srng.choice(["ifdef", "ifndef"]), nm, body],
                                             ["else", None, [["code"]]]]], ["code"]]
            ast = body
        else:
            ast = []
            while len(ast) < 400:
                ast.extend(cprog.rand_body(srng, 0, 3, [50]))
        defines = cprog.rand_defines(srng)
        if not ctx.mine(i):
            continue
        r = cprog.render(ast)
        run_case(ctx, work, r.text, defines, r, "stress", case={"ast": ast} if kind == 0 else {"ast": ast})


def post_check(m, tier):
    out = []
    cls = m["classes"]
    total_r = cls.get("random", 0)
    excl = m["extra"].get("excluded:gcc-diagnostic", 0)
    if total_r and excl > 0.5 * (total_r + 1) and excl > 0.5 * sum(m["verdicts"].values()):
        out.append(f"fewer than 50% of cases survived the premise filter ({excl} excluded)")
    return out


def replay(record, ctx):
    inp = record["input"]
    r = render_case(inp)
    work = ctx.subdir("tu")
    res = run_case(ctx, work, r.text, inp["defines"], r, "replay", case=inp)
    v = ctx.acc.violations
    return {"verdict": res, "violations": v}
