"""
C15 -- each physical file is parsed and counted once, however it is reached.

Monitored execution: finder.find + get_setmap on a forest decorated with file
symlinks, directory symlinks and redundant path segments (compile commands,
-I options, -include and #include spellings go through aliases), and on its
canonical twin (aliases replaced by canonical paths, links removed).
Oracles: metamorphic against the twin, keyed by physical file; gcc on the twin;
structural invariant "one tree per physical file" on ParserState.trees.
"""

import copy
import os
import shutil

from cbimon import cbi, cli
from cbimon.gen import forest
from cbimon.oracles import gcc
from cbimon.props import c10

PROP = "C15"
RULE = ("forest code base (C04 generator, all -I, every header name findable) decorated with: a compiled file reached "
        "through a file symlink beside it, -I through a directory symlink, redundant ./ and dir/.. segments in file / -I / "
        "-include paths, an #include spelled through a file symlink of a uniquely named header (also a #pragma once "
        "header reached under two names), unused symlinks to code-base files and to files outside the root. Twin = the "
        "same case without links and with canonical paths. Non-trivial: >=1 alias actually used by a command or an "
        "include; distinct by (files, commands, links).")
ASSUMPTIONS = ["physical identity = os.path.realpath / inode", "file symlinks used for compilation sit beside their target "
               "(a compiler resolves quote includes relative to the link's directory)", "gcc on the twin is the absolute oracle"]
REQUIRED_HOOKS = ["find", "get_setmap"]


def bounds(tier):
    return {"cases": 260 if tier == "quick" else 8000, "cli_cases": 5 if tier == "quick" else 60}


def required_cells(tier):
    return ["alias:compiled-through-file-link", "alias:-I-through-dir-link", "alias:dot-segments-file", "alias:dot-segments-I",
            "alias:include-through-file-link", "alias:once-header-under-two-names", "alias:forced-include",
            "link:unused-to-member", "link:to-outside", "link:to-excluded-member", "names-differing-in-case", "link:extension-of-another-language", "link:to-sibling-with-root-prefix", "alias:root-directory-through-link",
            "alias:dotdot-after-directory-link", "alias:once-header-forced-twice", "same-file-from-2-commands", "one-tree-per-inode", "cli:tree-links", "overlapping-directories", "alias:linked-translation-unit-named-by-bare-relative-name",
            "alias:search-directory-named-by-I-with-redundant-segments-and-by-isystem",
            "overlapping-directories:inner-alias-first", "identical-bytes-in-two-physical-files:coverage-export"]


def dots(rng, rel):
    d, b = os.path.split(rel)
    x = rng.random()
    if x < 0.4 and d:
        return os.path.join(d, ".", b)
    if x < 0.8 and d:
        return os.path.join(d, "..", os.path.basename(d), b)
    return os.path.join(".", rel)


def decorate(rng, case):
    """Returns (aliased case with 'links', cells)."""
    ac = copy.deepcopy(case)
    links = {}
    outside_files = {}
    cells = set()
    names = {}
    for rel in case["files"]:
        if rel.endswith(".h") and not rel.startswith("@out/"):
            names.setdefault(os.path.basename(rel), []).append(rel)
    unique = [v[0] for k, v in names.items() if len(v) == 1 and k != "pre.h"]
    for i, tu in enumerate(ac["tus"]):
        x = rng.random()
        if x < 0.35:
            d, b = os.path.split(tu["file"])
            l = os.path.join(d, "l_" + b)
            links[l] = b
            tu["file"] = l
            cells.add("alias:compiled-through-file-link")
        elif x < 0.6:
            tu["file"] = dots(rng, tu["file"])
            cells.add("alias:dot-segments-file")
        elif x < 0.8 and os.path.dirname(tu["file"]) == "src":
            # `..` after a directory link climbs from the link's TARGET (src/linkdeep), not from where the link sits
            links["dl"] = "src/linkdeep"
            tu["file"] = os.path.join("dl", "..", os.path.basename(tu["file"]))
            cells.add("alias:dotdot-after-directory-link")
        new_search = []
        for k, d in tu["search"]:
            y = rng.random()
            if y < 0.3 and not d.startswith("@out"):
                links["lnk_" + d.replace("/", "_")] = d
                new_search.append([k, "lnk_" + d.replace("/", "_")])
                cells.add("alias:-I-through-dir-link")
            elif y < 0.6 and not d.startswith("@out"):
                new_search.append([k, os.path.join(d, "..", os.path.basename(d))])
                cells.add("alias:dot-segments-I")
            else:
                new_search.append([k, d])
        tu["search"] = new_search
        if tu["includes"]:
            cells.add("alias:forced-include")
            y2 = rng.random()
            if y2 < 0.4:
                links["inc/l_pre.h"] = "pre.h"
                tu["includes"] = ["@abs:inc/l_pre.h"]
            elif y2 < 0.8 and case.get("pre_once"):
                # the #pragma once header forced twice: under its own name and through a second name
                links["inc/l_pre.h"] = "pre.h"
                tu["includes"] = ["@abs:inc/pre.h", "@abs:inc/l_pre.h"]
                cells.add("alias:once-header-forced-twice")
    # an #include spelled through a file symlink of a uniquely named header
    if unique and rng.random() < 0.8:
        target = rng.choice(unique)
        nm = os.path.basename(target)
        lname = "l_" + nm
        links[os.path.join(os.path.dirname(target), lname)] = nm
        done = False
        for rel, body in ac["files"].items():
            if not rel.endswith(".h"):
                for it in body:
                    if it[0] == "include" and it[1] in ("q", "a") and it[2] == nm and not done:
                        it[2] = lname
                        done = True
        if done:
            cells.add("alias:include-through-file-link")
            if "'once'" in str(case["files"][target]):
                cells.add("alias:once-header-under-two-names")
    # unused links
    members = [r for r in case["files"] if not r.startswith("@out/")]
    if rng.random() < 0.6:
        t = rng.choice(members)
        links["src/unused_link_" + os.path.basename(t)] = os.path.relpath(t, "src")
        cells.add("link:unused-to-member")
    if rng.random() < 0.5:
        outside_files["@out/far.h"] = "int far;\n"
        links["src/outside_link.h"] = "@out/far.h"
        cells.add("link:to-outside")
    if rng.random() < 0.5:
        # the target lies in a sibling of the root whose name merely starts with the root's name (root-build/)
        links["src/sibling_link.h"] = "@sib/version.h"
        cells.add("link:to-sibling-with-root-prefix")
    # an excluded header that has a second name (file symlink) which the pattern does not match: the physical file is
    # excluded, so neither name is a member
    hdrs = [r for r in members if r.endswith(".h") and os.path.basename(r) != "pre.h"]
    if hdrs and rng.random() < 0.4:
        t = rng.choice(hdrs)
        ac["exclude"] = ["/" + t]
        links["src/xl_" + os.path.basename(t)] = os.path.relpath(t, "src")
        cells.add("link:to-excluded-member")
    if any(r.endswith("/CaseP.h") for r in case["files"]):
        cells.add("names-differing-in-case")
    # second names whose extension belongs to ANOTHER language than the file they point to: the physical file keeps
    # its own language whichever name the analysis meets first
    for pre in ("a_", "m_", "zz_"):
        links[f"src/{pre}fort_alias.inc"] = "lang_fort.f90"
        links[f"src/{pre}cmt_alias.f90"] = "lang_cmt.c"
    cells.add("link:extension-of-another-language")
    files = [os.path.normpath(t["file"]) for t in case["tus"]]
    if len(set(files)) < len(files):
        cells.add("same-file-from-2-commands")
    ac["links"] = links
    ac["outside_files"] = outside_files
    return ac, cells


LANG_FILES = {
    "src/lang_fort.f90": "program p\n! a comment, isn't code\n  x = 1 ! trailing\n  s = 'a' // 'b'\n/* not a comment in Fortran */\nend program p\n",
    "src/lang_cmt.c": "int a; // c\n/* block\n   comment */\n! not_a_comment;\n// only comment\nint b;\n",
}


def write_lang_files(base):
    root, out = forest.paths(base)
    for rel, text in LANG_FILES.items():
        with open(os.path.join(root, rel), "w") as f:
            f.write(text)


def materialize_links(ac, base):
    root, out = forest.paths(base)
    for rel, text in ac.get("outside_files", {}).items():
        with open(forest.abspath(root, out, rel), "w") as f:
            f.write(text)
    os.makedirs(os.path.join(root, "src", "linkdeep"), exist_ok=True)
    for l, t in ac.get("links", {}).items():
        p = os.path.join(root, l)
        os.makedirs(os.path.dirname(p), exist_ok=True)
        if os.path.lexists(p):
            continue
        if t.startswith("@sib/"):
            sib = os.path.realpath(root) + "-build"
            os.makedirs(sib, exist_ok=True)
            with open(os.path.join(sib, t[5:]), "w") as f:
                f.write("int version;\n")
            os.symlink(os.path.join(sib, t[5:]), p)
        elif t.startswith("@out/"):
            os.symlink(forest.abspath(root, out, t), p)
        else:
            os.symlink(t, p)


def by_inode(state, root):
    """{realpath relative to root: {line: frozenset}} + structural check of state.trees."""
    res = {}
    inodes = {}
    dup = []
    for fn in state.get_filenames():
        st = os.stat(fn)
        key = (st.st_dev, st.st_ino)
        if key in inodes:
            dup.append((inodes[key], fn))
        inodes[key] = fn
        lines, _ = cbi.per_line(state, fn)
        res[os.path.relpath(os.path.realpath(fn), root)] = lines
    return res, dup


def check_case(ctx, case, base, cls, do_cli=False):
    acc = ctx.acc
    rng = ctx.rng("deco" + str(sorted(case["files"])))
    # twin first
    tb = os.path.join(base, "twin")
    ab = os.path.join(base, "alias")
    shutil.rmtree(base, ignore_errors=True)
    troot, rendered = forest.materialize(case, tb)
    ok, per_tu, expected = forest.gcc_expect(case, tb, rendered)
    if not ok:
        acc.excluded("gcc-diagnostic", cls=cls)
        return
    write_lang_files(tb)
    ac, cells = decorate(rng, case)
    aroot, arend = forest.materialize(ac, ab)
    write_lang_files(ab)
    materialize_links(ac, ab)
    # the aliased tree must still be fine for gcc and give the same live markers per TU (premise of the relation)
    ok2, per_tu2, _ = forest.gcc_expect(ac, ab, arend)
    if not ok2 or any(sorted(a["markers"]) != sorted(b["markers"]) for a, b in zip(per_tu, per_tu2)):
        acc.excluded("decoration-changes-gcc-result", cls=cls)
        return
    problems = []
    try:
        excl = ac.get("exclude") or []
        st_t, cb_t = cbi.run_find(troot, forest.cbi_configuration(case, tb), exclude_patterns=excl)
        # every other case names the analysis root itself through a symbolic link to the directory
        aroot_given = aroot
        if len(ac["files"]) % 2 == 0:
            aroot_given = os.path.join(ab, "root-by-link")
            if not os.path.lexists(aroot_given):
                os.symlink(os.path.realpath(aroot), aroot_given)
            cells.add("alias:root-directory-through-link")
        st_a, cb_a = cbi.run_find(aroot_given, forest.cbi_configuration(ac, ab), exclude_patterns=excl)
        acc.hook("find", 2)
        at, dup_t = by_inode(st_t, os.path.realpath(troot))
        aa, dup_a = by_inode(st_a, os.path.realpath(aroot))
        cells.add("one-tree-per-inode")
        if dup_a:
            problems.append({"kind": "two-trees-for-one-physical-file", "pairs": dup_a[:4]})
        # twin vs gcc (absolute)
        obs_t = {}
        for rel, lines in at.items():
            for ln, ps in lines.items():
                for p in ps:
                    obs_t.setdefault(p, {}).setdefault(rel, set()).add(ln)
        d = forest.diff({p: {f: l for f, l in v.items()} for p, v in expected.items()},
                        {p: {f: l for f, l in v.items() if not f.startswith("..")} for p, v in obs_t.items()})
        d = [x for x in d if not x["file"].startswith("@out") and "/" + x["file"] not in excl]
        if d:
            problems.append({"kind": "twin-vs-gcc", "diff": d[:5]})
        # aliased vs twin, per physical file (links add no physical files except the outside one)
        for rel in sorted(set(at) | set(aa)):
            if rel.startswith(".."):
                continue
            if at.get(rel) != aa.get(rel):
                a, b = at.get(rel, {}), aa.get(rel, {})
                ch = sorted(ln for ln in set(a) | set(b) if a.get(ln) != b.get(ln))[:10]
                problems.append({"kind": "attribution-differs-from-twin", "file": rel, "lines": ch,
                                 "twin": {str(l): sorted(a.get(l, [])) for l in ch}, "aliased": {str(l): sorted(b.get(l, [])) for l in ch}})
        sm_t = c10.setmap_of(st_t, cb_t)
        sm_a = c10.setmap_of(st_a, cb_a)
        acc.hook("get_setmap", 2)
        if sm_t != sm_a:
            problems.append({"kind": "setmap-differs-from-twin", "twin": {",".join(sorted(k)): v for k, v in sm_t.items()},
                             "aliased": {",".join(sorted(k)): v for k, v in sm_a.items()}})
        # the same analysis over a code base whose directories overlap (the root, its src/ directory, the root again
        # through a link): every file is still listed once and counted once
        from codebasin import CodeBase, finder, report
        import io
        over_dirs = [aroot, os.path.join(aroot, "src"), aroot_given if aroot_given != aroot else os.path.join(aroot, "inc", "..")]
        if len(ac["files"]) % 3 == 1 and not excl:
            # an alias of an inner directory named BEFORE the directory that contains it (only without exclude patterns:
            # a pattern is read relative to the first listed directory that holds the file)
            inner_alias = os.path.join(ab, "src-by-link")
            if not os.path.lexists(inner_alias):
                os.symlink(os.path.join(os.path.realpath(aroot), "src"), inner_alias)
            over_dirs = [inner_alias, os.path.join(aroot, "inc"), aroot]
            cells.add("overlapping-directories:inner-alias-first")
        cb_o = CodeBase(*over_dirs, exclude_patterns=list(excl))
        st_o = finder.find(aroot, cb_o, forest.cbi_configuration(ac, ab))
        acc.hook("find")
        cells.add("overlapping-directories")
        names_o = list(cb_o)
        if len(names_o) != len(set(names_o)) or set(names_o) != set(cb_a):
            rep = sorted({n for n in names_o if names_o.count(n) > 1})
            problems.append({"kind": "overlapping directories: a file is listed more than once", "directories": over_dirs,
                             "repeated": [os.path.relpath(n, aroot) for n in rep[:5]], "listed": len(names_o), "distinct": len(set(names_o)),
                             "single_root": len(set(cb_a))})
        sm_o = c10.setmap_of(st_o, cb_o)
        if sm_o != sm_a:
            problems.append({"kind": "overlapping directories: lines are counted more than once", "directories": over_dirs,
                             "single_root": {",".join(sorted(k)): v for k, v in sm_a.items()},
                             "overlapping": {",".join(sorted(k)): v for k, v in sm_o.items()}})
        buf = io.StringIO()
        report.duplicates(cb_o, buf)
        groups = cli.parse_duplicates(buf.getvalue())
        if any(len(g) != len(set(g)) for g in groups):
            problems.append({"kind": "overlapping directories: a file is reported as a duplicate of itself",
                             "group": [g for g in groups if len(g) != len(set(g))][0][:4]})
        listed = {os.path.relpath(p, os.path.realpath(aroot)) for p in cb_a}
        if "src/outside_link.h" in listed:
            problems.append({"kind": "link-to-outside-enumerated"})
        if "src/sibling_link.h" in ac["links"] and ("src/sibling_link.h" in listed or os.path.join(aroot, "src/sibling_link.h") in cb_a
                                                    or os.path.realpath(aroot) + "-build/version.h" in cb_a):
            problems.append({"kind": "link into a sibling directory (root-build/) is part of the code base"})
        for x in excl:
            xl = "src/xl_" + os.path.basename(x)
            for name in (x[1:], xl):
                if name in listed or os.path.join(aroot, name) in cb_a:
                    problems.append({"kind": "name-of-an-excluded-physical-file-is-a-member", "name": name, "exclude": excl})
        if do_cli and not problems:
            from cbimon.props import c08
            toml = c08.write_dbs(ac, ab)
            rc, out, err = cli.run("cbi-tree", [a_ for x in excl for a_ in ("-x", x)] + [toml], aroot)
            legend, rows = cli.parse_tree(out)
            cells.add("cli:tree-links")
            if rc != 0:
                problems.append({"kind": "cbi-tree failed", "stderr": err[-300:]})
            else:
                total = sum(sm_t.values())
                if rows and rows[0]["sloc"] != str(total) and total < 1000:
                    problems.append({"kind": "cbi-tree root SLOC differs from twin total", "expected": total, "observed": rows[0]["sloc"]})
                if any(r["name"] == "outside_link.h" for r in rows):
                    problems.append({"kind": "cbi-tree lists a link to a file outside the code base"})
    except Exception as e:
        import traceback
        problems.append({"kind": "exception", "observed": f"{type(e).__name__}: {e}", "tb": traceback.format_exc()[-600:]})
    used = [c for c in cells if c.startswith("alias:")]
    nontriv = {"files": {k: str(v) for k, v in ac["files"].items()}, "tus": ac["tus"], "links": ac["links"]} if used else None
    if problems:
        acc.violated({"input": ac, "witness": {"problems": problems[:5], "links": ac["links"], "commands": ac["tus"],
                                                "files": {rel: arend[rel].text for rel in list(arend)[:8]}}},
                     mechanism=classify(problems, ac, cells), cells=cells, nontrivial=nontriv, cls=cls)
    else:
        acc.held(cells=cells, nontrivial=nontriv, cls=cls, sample={"links": ac["links"], "commands": ac["tus"]})


def classify(problems, ac, cells):
    return None


def spelling_scenarios(ctx, base):
    """Two fixed scenarios about spellings that the random decoration does not produce:
      N  a translation unit that is a symbolic link, named by a BARE relative name (the process stands in the link's
         directory) or by its absolute path: its quote includes are looked up beside the link either way (gcc agrees);
      D  one search directory named by -I with redundant segments (./inc, inc/, other/../inc, inc/.) and plainly by
         -isystem: it is the same directory, searched in its -isystem position, exactly as with the canonical spelling."""
    import json
    from codebasin import CodeBase, config, finder
    acc = ctx.acc
    d = os.path.join(base, "spell")
    shutil.rmtree(d, ignore_errors=True)
    # ---- N
    for sub in ("work", "real"):
        os.makedirs(os.path.join(d, "N", sub))
    rootn = os.path.realpath(os.path.join(d, "N"))
    files = {"real/main.c": "#include \"x.h\"\nint m;\n#ifdef X_WORK\nint w;\n#endif\n#ifdef X_REAL\nint r;\n#endif\n",
             "work/x.h": "#define X_WORK 1\nint xw;\n", "real/x.h": "#define X_REAL 1\nint xr1;\nint xr2;\n"}
    for rel, text in files.items():
        with open(os.path.join(rootn, rel), "w") as f:
            f.write(text)
    os.symlink("../real/main.c", os.path.join(rootn, "work", "link.c"))
    g = gcc.preprocess(os.path.join(rootn, "work", "link.c"), cwd=os.path.join(rootn, "work"))
    results = {}
    old = os.getcwd()
    try:
        for name, cwd, spelled in (("absolute", rootn, os.path.join(rootn, "work", "link.c")), ("bare-name", os.path.join(rootn, "work"), "link.c"),
                                   ("relative", rootn, "work/link.c"), ("dot-relative", os.path.join(rootn, "work"), "./link.c")):
            os.chdir(cwd)
            try:
                cb = CodeBase(rootn)
                st = finder.find(rootn, cb, {"p": [{"file": spelled, "defines": [], "include_paths": [], "include_files": []}]}, show_progress=False)
                acc.hook("find")
                res = {}
                for rel in files:
                    p_ = os.path.join(rootn, rel)
                    res[rel] = sorted(cbi.used_lines(st, p_, "p")) if st.get_tree(p_) is not None else None
                results[name] = res
            except Exception as e:
                results[name] = f"{type(e).__name__}: {e}"
    finally:
        os.chdir(old)
    problems = []
    want_work = "int xw;" in g["stdout"]
    for name, res in results.items():
        if res != results["absolute"]:
            problems.append({"kind": "attribution depends on how the linked translation unit is spelled", "spelling": name,
                             "absolute": results["absolute"], "this": res})
    if isinstance(results["absolute"], dict) and want_work != bool(results["absolute"].get("work/x.h")):
        problems.append({"kind": "quote include of a linked translation unit differs from gcc", "gcc_reads_work_x_h": want_work, "observed": results["absolute"]})
    cells = {"alias:linked-translation-unit-named-by-bare-relative-name"}
    if problems:
        acc.violated({"input": {"scenario": "spelling-N"}, "witness": {"files": files, "link": "work/link.c -> ../real/main.c", "problems": problems[:3]}}, cells=cells, cls="S")
    else:
        acc.held(cells=cells, cls="S", nontrivial={"scenario": "spelling-N"})
    # ---- T  two different physical files with identical bytes, used differently: both are exported, each with its own lines
    roott = os.path.realpath(os.path.join(d, "T"))
    for sub in ("cpu", "gpu", "include"):
        os.makedirs(os.path.join(roott, sub))
    kern = "int k1;\n#ifdef FAST\nint fast;\n#else\nint slow;\n#endif\nint k2;\n"
    filest = {"cpu/kernel.h": kern, "gpu/kernel.h": kern, "cpu/a.c": "#include \"kernel.h\"\nint a;\n", "gpu/b.c": "#include \"kernel.h\"\nint b;\n"}
    for rel, text in filest.items():
        with open(os.path.join(roott, rel), "w") as f:
            f.write(text)
    os.symlink("../cpu/kernel.h", os.path.join(roott, "include", "kernel.h"))
    with open(os.path.join(roott, "db.json"), "w") as f:
        json.dump([{"file": "cpu/a.c", "directory": roott, "arguments": ["gcc", "-DFAST", "-c", "cpu/a.c"]},
                   {"file": "gpu/b.c", "directory": roott, "arguments": ["gcc", "-c", "gpu/b.c"]}], f)
    problems = []
    rc, out, err = cli.run("cbi-cov", ["compute", "-S", roott, "-o", os.path.join(roott, "cov.json"), os.path.join(roott, "db.json")], roott)
    acc.hook("find")
    if rc != 0:
        problems.append({"kind": "cbi-cov failed", "stderr": err[-300:]})
    else:
        cov = {e["file"]: e for e in json.load(open(os.path.join(roott, "cov.json")))}
        # (the directive lines 2, 4 and 6 of a chain that is reached belong to the platform)
        want = {"cpu/kernel.h": ([1, 2, 3, 4, 6, 7], [5]), "gpu/kernel.h": ([1, 2, 4, 5, 6, 7], [3]), "cpu/a.c": ([1, 2], []), "gpu/b.c": ([1, 2], [])}
        for rel, (u, un) in want.items():
            e = cov.get(rel)
            if e is None or sorted(e["used_lines"]) != u or sorted(e["unused_lines"]) != un:
                problems.append({"kind": "coverage export of byte-identical files used differently", "file": rel, "expected": [u, un],
                                 "observed": [sorted(e["used_lines"]), sorted(e["unused_lines"])] if e else None})
    cells = {"identical-bytes-in-two-physical-files:coverage-export"}
    if problems:
        acc.violated({"input": {"scenario": "spelling-T"}, "witness": {"files": filest, "problems": problems[:3]}}, cells=cells, cls="S")
    else:
        acc.held(cells=cells, cls="S", nontrivial={"scenario": "spelling-T"})
    # ---- D
    rootd = os.path.realpath(os.path.join(d, "D"))
    for sub in ("inc", "other", "src"):
        os.makedirs(os.path.join(rootd, sub))
    filesd = {"inc/x.h": "#define FROM_INC 1\nint xi;\n", "other/x.h": "#define FROM_OTHER 1\nint xo1;\nint xo2;\n",
              "src/t.c": "#include <x.h>\nint t;\n#ifdef FROM_INC\nint fi;\n#endif\n#ifdef FROM_OTHER\nint fo;\n#endif\n"}
    for rel, text in filesd.items():
        with open(os.path.join(rootd, rel), "w") as f:
            f.write(text)
    outcomes = {}
    for sp in ("inc", "./inc", "inc/", "other/../inc", "inc/.", "inc//", "./inc/./"):
        for sysp in ("inc", "inc/"):
            argv = ["gcc", "-I", sp, "-I", "other", "-isystem", sysp, "-c", "src/t.c"]
            gg = gcc.preprocess(os.path.join(rootd, "src", "t.c"), extra=argv[1:-2], cwd=rootd)
            with open(os.path.join(rootd, "db.json"), "w") as f:
                json.dump([{"file": "src/t.c", "directory": rootd, "arguments": argv}], f)
            try:
                conf = config.load_database(os.path.join(rootd, "db.json"), rootd)
                st, _ = cbi.run_find(rootd, {"p": conf})
                acc.hook("find")
                res = {rel: sorted(cbi.used_lines(st, os.path.join(rootd, rel), "p")) for rel in filesd}
            except Exception as e:
                res = f"{type(e).__name__}: {e}"
            outcomes[f"-I {sp} -isystem {sysp}"] = (res, "int xo1;" in gg["stdout"], gg["ok"])
    problems = []
    canon = outcomes["-I inc -isystem inc"][0]
    for k, (res, gcc_other, gok) in outcomes.items():
        if res != canon:
            problems.append({"kind": "attribution depends on how the doubly named search directory is spelled", "spelling": k, "canonical": canon, "this": res})
        elif gok and isinstance(res, dict) and gcc_other != bool(res.get("other/x.h")):
            problems.append({"kind": "doubly named search directory: differs from gcc", "spelling": k, "gcc_reads_other_x_h": gcc_other, "observed": res})
    cells = {"alias:search-directory-named-by-I-with-redundant-segments-and-by-isystem"}
    if problems:
        acc.violated({"input": {"scenario": "spelling-D"}, "witness": {"files": filesd, "problems": problems[:3]}}, cells=cells, cls="S")
    else:
        acc.held(cells=cells, cls="S", nontrivial={"scenario": "spelling-D"})


def run_shard(ctx):
    b = bounds(ctx.tier)
    base = os.path.join(ctx.scratch, "c15")
    if ctx.shard == 1 % ctx.nshards:
        spelling_scenarios(ctx, base + "-spell")
    rng = ctx.rng("cases")
    for i in range(b["cases"]):
        case = forest.gen(rng, n_tus=rng.randint(1, 4), findable=True, casepair=(i % 3 == 0))
        for tu in case["tus"]:
            tu["search"] = [["I", d] for _, d in tu["search"]]
        if rng.random() < 0.3 and len(case["tus"]) >= 2:
            # the same file compiled by two commands with different defines
            case["tus"][1]["file"] = case["tus"][0]["file"]
        if i % 3 == 1 and "inc/pre.h" in case["files"]:
            # the forced header carries #pragma once and changes the macro state each time it is read; every command
            # that forces it names it twice
            case["files"]["inc/pre.h"] = [["code"], ["once"], ["define", "FROM_PRE", "1"],
                                          ["chain", [["ifdef", "PRE_SEEN", [["code"], ["define", "PRE_TWICE", None]]], ["else", None, [["define", "PRE_SEEN", None]]]]]]
            case["pre_once"] = True
            for tu in case["tus"]:
                if tu["includes"]:
                    tu["includes"] = ["@abs:inc/pre.h", "@abs:inc/pre.h"]
                case["files"][tu["file"]] = case["files"][tu["file"]] + [["chain", [["ifdef", "PRE_TWICE", [["code"]]], ["else", None, [["code"]]]]]]
        if ctx.mine(i):
            check_case(ctx, case, base, "R", do_cli=(i < b["cli_cases"] * 16 and i % 16 == ctx.shard))
    shutil.rmtree(base, ignore_errors=True)


def replay(record, ctx):
    return {"verdict": "unknown", "note": "re-run ./check C15; the witness holds files, links and commands"}
