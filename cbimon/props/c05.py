"""
C05 -- a physical line is counted iff it holds code outside comments.

Monitored execution: codebasin.file_source.c_file_source (the generator that
FileParser drives) on every text of the enumerated space, and
FileParser.parse_file on files for the vocabulary / random classes.
Oracle: the cscan reference scanner (phases 1-3 with per-character physical
line tags), itself cross-checked against `gcc -E` at physical-line
granularity on a sample and on every violating case.
"""

import io
import itertools
import os
import shutil
import re

from cbimon import cbi
from cbimon.oracles import cscan, gcc

PROP = "C05"
ALPHABET = "a1 \n/*\"'\\#"
RULE = ("E1: all texts up to length L over {a,1,space,newline,/,*,\",',\\,#}; E2: all sequences of <=K lines from a "
        "48-line vocabulary hitting every cleaner state at a line boundary; R: random token-level files <=80 lines. "
        "Excluded: texts the reference scanner calls ill-formed (unterminated literal/comment, stray backslash, "
        "backslash-space-newline, backslash(-newline) at EOF, empty character constant). Non-trivial: contains at "
        "least one of / \" ' \\ #; distinct by text.")
ASSUMPTIONS = [
    "cscan (C17 5.1.1.2 phases 1-3) is the reference; it agreed with gcc -E on every sampled and every violating case",
    "every character of a string/character literal, blanks included, is code (a token cannot be white space)",
]
REQUIRED_HOOKS = ["H-c_file_source", "H-FileParser"]

VOCAB = [
    "a", "", "  ", "a b", "a /* c */ b", "/* c */", "/* open", "close */", "close */ a", "* /", "a /* open", "*/", "*",
    "// c", "a // c", "// c \\", "a \\", "\\", "  \\", "/", "/ \\", "a / \\", "/\\", "\"s\"", "\"/* s */\"", "\"// s\" a",
    "\"a\\\"b // c\"", "\"a \\", "b\"", "'c'", "'\"'", "'\\''", "'/*'", "'//'", "#a", "# a \\", "#", "  # a", "#a /* open",
    "#a // c", "/* c */ #a", "a #a", "\"s\" #", "a' '", "' '", "\t", "\ta\t", "*/ /*",
    "#a /* c *", "* d */ b", "/* x *", "// x \\\\", "\"a\\\\", "  /* i", "   */ #a",
    "#error \"/*\"", "#warning \"a//b\" \\", "#error \"x\" // c", "#pragma message(\"/* not a comment\")", "# error '\"' /* c */",
]


def bounds(tier):
    q = tier == "quick"
    return {"L": 6 if q else 7, "K": 3 if q else 4, "random": 3000 if q else 60000,
            "gcc_sample": 0.003 if q else 0.01, "long": 64 if q else 640}


def exhaustive(tier):
    return True


def required_cells(tier):
    cells = [f"eol:{s}" for s in cscan.STATE_NAMES if s not in ("STRING", "CHAR")]
    cells += ["splice", "splice-in-comment", "splice-in-directive", "directive", "directive-multi-line",
              "comment-marker-in-literal", "quote-in-comment", "no-final-newline", "class:E1", "class:E2", "class:R",
              "via-FileParser", "gcc-crosscheck", "crlf-line-ends", "class:LONG", "line>65536",
              "c-header-first-reached-from-fortran", "unusual-line-break-characters", "coverage-export-of-identical-files",
              "literal-in-diagnostic-directive", "class:CARRY", "file-rewritten-with-equal-size-and-mtime:>=32KiB", "tree-report-of-files-nothing-compiles", "identifier-ending-in-R-before-a-string"]
    cells += ["long-plain-line-after:" + n for n, _ in CARRY_HEADS] + ["ext:" + e for e in C_FAMILY_EXTS]
    return cells


def cbi_scan(text):
    """Drive the real generator; returns (yields=[(lines, category)], total_sloc, physical) or raises."""
    from codebasin.file_source import c_file_source
    src = c_file_source(io.StringIO(text))
    out = []
    try:
        while True:
            li = next(src)
            out.append((list(li.lines), li.category))
    except StopIteration as s:
        total_sloc, phys = s.value
    return out, total_sloc, phys


def compare(text, ref, observed):
    """Problems (list of dicts) of the observed generator output against the reference scan."""
    yields, total_sloc, phys = observed
    problems = []
    seen = []
    dirl = set()
    for lines, cat in yields:
        seen.extend(lines)
        if cat == "CPP_DIRECTIVE":
            dirl.update(lines)
    if len(seen) != len(set(seen)):
        problems.append({"kind": "line-counted-twice", "lines": sorted(x for x in set(seen) if seen.count(x) > 1)})
    if any(x < 1 or x > ref.nlines for x in seen):
        problems.append({"kind": "line-outside-file", "lines": sorted(x for x in seen if x < 1 or x > ref.nlines)})
    if sorted(set(seen)) != ref.counted:
        problems.append({"kind": "counted-set", "expected": ref.counted, "observed": sorted(set(seen))})
    else:
        want_dir = set(ref.directive) & set(ref.counted)
        if dirl != want_dir:
            problems.append({"kind": "directive-class", "expected": sorted(want_dir), "observed": sorted(dirl)})
    if total_sloc != len(seen):
        problems.append({"kind": "total_sloc", "expected": len(seen), "observed": total_sloc})
    return problems


def cells_of(text, ref):
    cells = set()
    for ln, st in ref.eol_states.items():
        cells.add("eol:" + cscan.STATE_NAMES[st])
    if ref.spliced:
        cells.add("splice")
        if re.search(r"(//[^\n]*|/\*[^/]*)\\\n", text):
            cells.add("splice-in-comment")
    if ref.directive:
        cells.add("directive")
        for members, is_dir in ref.logical:
            if is_dir and len(members) > 1:
                cells.add("directive-multi-line")
            if is_dir and any(m in ref.spliced for m in members):
                cells.add("splice-in-directive")
    if re.search(r"\"[^\"\n]*(/\*|//)[^\"\n]*\"|'(/\*|//)'", text):
        cells.add("comment-marker-in-literal")
    if re.search(r"(//|/\*)[^\n]*[\"']", text):
        cells.add("quote-in-comment")
    if text and not text.endswith("\n"):
        cells.add("no-final-newline")
    if len(text) > 65536 and max(map(len, text.split("\n"))) > 65536:
        cells.add("line>65536")
    if re.search(r"#\s*(error|warning|pragma)[^\n]*[\"']", text):
        cells.add("literal-in-diagnostic-directive")
    if any(c in text for c in "\f\v\x85\u2028\u2029\x1c"):
        cells.add("unusual-line-break-characters")
    return cells


def shrink(text, still_bad, budget=300):
    """Delete characters / lines while the text stays valid and violating."""
    changed = True
    while changed and budget > 0:
        changed = False
        # whole lines first
        parts = text.split("\n")
        for i in range(len(parts)):
            t2 = "\n".join(parts[:i] + parts[i + 1:])
            budget -= 1
            if t2 != text and still_bad(t2):
                text, changed = t2, True
                break
        if changed:
            continue
        for i in range(len(text)):
            t2 = text[:i] + text[i + 1:]
            budget -= 1
            if still_bad(t2):
                text, changed = t2, True
                break
            if budget <= 0:
                break
    return text


def bad_signature(text):
    """None if the text is ill-formed or CBI agrees; else a signature of how it fails."""
    ref = cscan.scan(text)
    if not ref.valid:
        return None
    try:
        obs = cbi_scan(text)
    except Exception as e:
        return ("exception", type(e).__name__)
    probs = compare(text, ref, obs)
    return ("mismatch", probs[0]["kind"]) if probs else None


def is_bad(text, signature=None):
    sig = bad_signature(text)
    return sig is not None and (signature is None or sig == signature)


def classify(shrunk):
    """Known-finding predicates over the shrunk witness."""
    spliced = shrunk.replace("\\\n", "")        # the literal may be split by a line continuation
    for t in (shrunk, spliced):
        if re.search(r"'(\\.|[^'\\\n])*/[/*]", t) and re.search(r"'[^'\n]*/[/*][^'\n]*'", t):
            return "comment-opener-inside-character-constant"
    if re.search(r"/\\\n", shrunk):
        return "slash-before-line-continuation"
    return None


def gcc_crosscheck(ctx, text, ref, work, force=False):
    """Compare cscan with gcc -E; returns None (agree / not comparable) or a disagreement record."""
    path = os.path.join(work, "x.c")
    with open(path, "w") as f:
        f.write(text)
    ok, glines, err = gcc.token_lines(path)
    ctx.acc.hook("H-gcc-crosscheck")
    if ok != ref.valid:
        # gcc is more permissive about a stray backslash (the compiler proper rejects it) and about directive
        # contents; only a cscan-valid text that gcc diagnoses for lexical reasons matters
        if ref.valid and re.search(r"missing terminating|unterminated|backslash|empty character", err):
            return {"text": text, "cscan_valid": ref.valid, "gcc_stderr": err[:300]}
        return None
    if not ok:
        return None
    if ref.directive or "#" in text:
        return None
    code = set(ref.counted)
    if "\\" not in text:
        if glines != code:
            return {"text": text, "cscan": sorted(code), "gcc": sorted(glines)}
    elif not glines <= code:
        return {"text": text, "cscan": sorted(code), "gcc": sorted(glines), "note": "gcc lines not a subset"}
    ctx.acc.cells["gcc-crosscheck"] += 1
    return None


def check_text(ctx, text, cls, work, sample_rng, via_file=False):
    acc = ctx.acc
    ref = cscan.scan(text)
    b = bounds(ctx.tier)
    if sample_rng.random() < b["gcc_sample"]:
        dis = gcc_crosscheck(ctx, text, ref, work)
        if dis:
            acc.oracle_disagreement(dis)
            return
    if not ref.valid:
        acc.excluded(ref.why, cls=cls)
        return
    cells = cells_of(text, ref)
    cells.add("class:" + cls)
    nontrivial = text if any(c in text for c in "/\"'\\#") else None
    try:
        obs = cbi_scan(text)
        acc.hook("H-c_file_source")
        problems = compare(text, ref, obs)
    except Exception as e:
        problems = [{"kind": "exception", "observed": f"{type(e).__name__}: {e}"}]
    if not problems and via_file:
        problems = file_parser_check(ctx, text, ref, work)
        cells.add("via-FileParser")
        if not problems and len(text) % 3 == 0 and "\r" not in text:
            problems = file_parser_check(ctx, text, ref, work, crlf=True)
            cells.add("crlf-line-ends")
        if not problems and cls == "R" and len(text) % 40 == 7 and "#" not in text and ref.counted:
            problems = coverage_twins_check(ctx, text, ref, work)
            cells.add("coverage-export-of-identical-files")
        if not problems and cls == "R" and len(text) % 40 == 11 and "#" not in text and ref.counted and max(ref.counted) > len(ref.counted):
            # (a text with blank or comment-only lines before its last code line)
            problems = tree_of_unused_files_check(ctx, text, ref, work)
            cells.add("tree-report-of-files-nothing-compiles")
        if not problems and cls == "R" and len(text) % 5 == 1 and "#" not in text:
            problems = mixed_language_check(ctx, text, ref, work)
            cells.add("c-header-first-reached-from-fortran")
    if not problems:
        acc.held(cells=cells, nontrivial=nontrivial, cls=cls,
                 sample={"text": text, "counted": ref.counted, "directive_lines": sorted(ref.directive)})
        return
    dis = gcc_crosscheck(ctx, text, ref, work, force=True)
    if dis:
        acc.oracle_disagreement(dis)
        return
    sig0 = bad_signature(text)
    sh = shrink(text, (lambda t: is_bad(t, sig0)) if sig0 else is_bad)
    mech = classify(sh)
    acc.violated({"input": {"text": text}, "witness": {"shrunk": sh, "text": text, "problems": problems,
                                                         "reference": {"counted": ref.counted,
                                                                       "directive": sorted(ref.directive)}}},
                 mechanism=mech, cells=cells, nontrivial=nontrivial, cls=cls)


C_FAMILY_EXTS = [".c", ".h", ".cpp", ".hpp", ".cc", ".cxx", ".inc", ".inl", ".cu", ".cuh", ".cl", ".icc", ".tcc", ".ipp", ".hh",
                 ".hxx", ".h++", ".c++"]


def mixed_language_check(ctx, text, ref, work):
    """The text is a member header with a C extension that is reached FIRST through an #include in a free-form Fortran
    file (the only compile command): a member file is scanned according to its own extension."""
    from codebasin import preprocessor
    from cbimon import cbi
    d = os.path.join(work, "mixed")
    shutil.rmtree(d, ignore_errors=True)
    os.makedirs(d)
    hdr = os.path.join(d, "cfg" + C_FAMILY_EXTS[len(text) % 4])
    with open(hdr, "w") as f:
        f.write(text)
    src = os.path.join(d, "prog.F90")
    with open(src, "w") as f:
        f.write("program p\n#include \"%s\"\nend program p\n" % os.path.basename(hdr))
    try:
        state, _ = cbi.run_find(d, {"p": [cbi.entry(src, [], [d])]})
        tree = state.get_tree(hdr)
    except Exception as e:
        return [{"kind": "exception-mixed-language-run", "observed": f"{type(e).__name__}: {e}"}]
    ctx.acc.hook("H-mixed-language-find")
    if tree is None:
        return [{"kind": "member header not parsed"}]
    seen = sorted(ln for node in tree.walk() if isinstance(node, preprocessor.CodeNode) for ln in node.lines)
    if seen != ref.counted:
        return [{"kind": "counted-set of a C header first reached from Fortran", "expected": ref.counted, "observed": seen}]
    return []


def coverage_twins_check(ctx, text, ref, work):
    """cbi-cov on a directory that holds the text twice under two names (plus an unrelated file): every file is listed,
    each with the counted lines of its own text (used + unused = the reference's counted set)."""
    import json
    from cbimon import cli
    d = os.path.join(work, "twins")
    shutil.rmtree(d, ignore_errors=True)
    os.makedirs(os.path.join(d, "cpu"))
    os.makedirs(os.path.join(d, "gpu"))
    for rel in ("cpu/kernel.cpp", "gpu/.kernel.cpp"):          # (the second name starts with a dot: a source file like any other)
        with open(os.path.join(d, rel), "w") as f:
            f.write(text)
    with open(os.path.join(d, "other.c"), "w") as f:
        f.write("int other;\n")
    db = os.path.join(work, "twins-db.json")
    with open(db, "w") as f:
        json.dump([{"file": os.path.join(d, "cpu/kernel.cpp"), "directory": d, "arguments": ["g++", "-c", os.path.join(d, "cpu/kernel.cpp")]}], f)
    covp = os.path.join(work, "twins-cov.json")
    rc, out, err = cli.run("cbi-cov", ["compute", "-S", d, "-o", covp, db], d)
    ctx.acc.hook("cli-runs")
    if rc != 0:
        return [{"kind": "cbi-cov failed", "stderr": err[-300:]}]
    cov = {e["file"]: e for e in json.load(open(covp))}
    problems = []
    for rel in ("cpu/kernel.cpp", "gpu/.kernel.cpp"):
        e = cov.get(rel)
        got = sorted(set(e["used_lines"]) | set(e["unused_lines"])) if e else None
        if got != ref.counted:
            problems.append({"kind": "coverage export of one of two identical files", "file": rel, "expected": ref.counted, "observed": got})
    if "other.c" not in cov:
        problems.append({"kind": "coverage export misses a file", "file": "other.c"})
    return problems


def tree_of_unused_files_check(ctx, text, ref, work):
    """cbi-tree on a directory where the text is a file that nothing compiles (beside a compiled one holding the same
    text): the tree's SLOC figure of each file is the number of counted lines of its text."""
    import json
    from cbimon import cli
    d = os.path.join(work, "treecase")
    shutil.rmtree(d, ignore_errors=True)
    os.makedirs(os.path.join(d, "sub"))
    for rel in ("unused.c", "sub/compiled.c"):
        with open(os.path.join(d, rel), "w") as f:
            f.write(text)
    with open(os.path.join(d, "db.json"), "w") as f:
        json.dump([{"file": "sub/compiled.c", "directory": d, "arguments": ["gcc", "-c", "sub/compiled.c"]}], f)
    with open(os.path.join(d, "empty.json"), "w") as f:
        f.write("[]")
    problems = []
    for toml_text, tag in (('[platform.p]\ncommands = "db.json"\n', "one-platform"), ('[platform.p]\ncommands = "empty.json"\n', "nothing-compiled")):
        with open(os.path.join(d, "analysis.toml"), "w") as f:
            f.write(toml_text)
        rc, out, err = cli.run("cbi-tree", ["analysis.toml"], d)
        ctx.acc.hook("cli-runs")
        if rc != 0:
            problems.append({"kind": "cbi-tree failed", "case": tag, "stderr": err[-300:]})
            continue
        legend, rows = cli.parse_tree(out)
        byname = {r["name"]: r for r in rows}
        for nm in ("unused.c", "compiled.c"):
            got = byname.get(nm, {}).get("sloc")
            if len(ref.counted) < 1000 and got != str(len(ref.counted)):
                problems.append({"kind": "cbi-tree SLOC of a file", "case": tag, "file": nm, "expected": len(ref.counted), "observed": got})
    return problems


def file_parser_check(ctx, text, ref, work, crlf=False):
    """Same text through FileParser.parse_file on a real file: node.lines, node classes, total_sloc.
    crlf: the file is written with CRLF line ends (same physical lines, same expected classes).
    The file name cycles through every extension of the C family."""
    from codebasin import file_parser, preprocessor
    for old in os.listdir(work):
        if old.startswith("fp."):
            os.unlink(os.path.join(work, old))
    path = os.path.join(work, "fp" + C_FAMILY_EXTS[(len(text) + text.count("/")) % len(C_FAMILY_EXTS)])
    ctx.acc.cells["ext:" + os.path.splitext(path)[1]] += 1
    with open(path, "w", newline="") as f:
        f.write(text.replace("\n", "\r\n") if crlf else text)
    problems = []
    try:
        tree = file_parser.FileParser(path).parse_file(summarize_only=False)
    except Exception as e:
        return [{"kind": "exception-FileParser", "observed": f"{type(e).__name__}: {e}"}]
    ctx.acc.hook("H-FileParser")
    seen, dirl = [], set()
    for node in tree.walk():
        if isinstance(node, preprocessor.CodeNode):
            seen.extend(node.lines)
            if isinstance(node, preprocessor.DirectiveNode):
                dirl.update(node.lines)
            if node.num_lines != len(node.lines):
                problems.append({"kind": "node.num_lines", "expected": len(node.lines), "observed": node.num_lines})
            if node.lines and not (node.start_line <= min(node.lines) and max(node.lines) <= node.end_line):
                problems.append({"kind": "node-extent", "lines": node.lines, "extent": [node.start_line, node.end_line]})
    if sorted(seen) != ref.counted:
        problems.append({"kind": "FileParser-counted-set", "expected": ref.counted, "observed": sorted(seen)})
    elif dirl != (set(ref.directive) & set(ref.counted)):
        problems.append({"kind": "FileParser-directive-class", "expected": sorted(ref.directive), "observed": sorted(dirl)})
    if tree.root.total_sloc != len(ref.counted) and not problems:
        problems.append({"kind": "FileParser-total_sloc", "expected": len(ref.counted), "observed": tree.root.total_sloc})
    return problems


TOKENS = ["a", "b1", "1", "x = y", ";", "{", "}", " ", "  ", "\t", "/", "*", "/* c */", "/* c\n c */", "/*\n*\n*/", "// c",
          "// c \\\n c", "\"s\"", "\"/*\"", "\"//\"", "\"\\\"\"", "\"a\\\\\"", "'c'", "'\\''", "'\"'", "'\\\\'", "\\\n",
          " \\\n", "#a", "# a b", "#a \\\n b", "\n", "\n", "\n", "a/b", "a / b", "a/*c*/b", "*/", "/ *", "* /", "'/'", "\"'\"",
          "/* ' */", "/* \" */", "// '", "// \"", "#a // c", "#a /* c\n */ b", "/* c */ #a",
          # characters that some line splitters take for line ends: form feed and vertical tab are white space in C,
          # the others only appear inside comments here
          "\f", "\v", "a\fb", " \f ", "/* x\fy */", "// c\vd", "/* \x85 \u2028 \x1c\x1d\x1e */", "// \u2029 \x85"]


def random_text(rng):
    n = rng.choice([3, 8, 20, 60, 200])
    parts = [rng.choice(TOKENS) for _ in range(n)]
    t = "".join(p + rng.choice(["", " ", "\n", "\n"]) for p in parts)
    if rng.random() < 0.8 and not t.endswith("\n"):
        t += "\n"
    return t


CARRY_HEADS = [("line-comment-continued", "// ref \\"), ("block-comment-star-continued", "/* ref *\\"), ("inside-block-comment", "/* ref"),
               ("string-continued", "s = \"abc \\"), ("directive-continued", "# d e \\"), ("code-continued", "x = \\"),
               ("slash-continued", "y = 4 /\\"), ("star-inside-comment-continued", "/* a **\\"), ("block-comment-closed", "/* c */"),
               ("char-continued", "c = '\\"), ("plain", "int a;")]
PLAIN_UNITS = ["a", "x = y ", "1 + ", "tbl ", "\t", "v,", "(){};"]


def carry_over_texts():
    """Deterministic: a physical line longer than 4096 / 8192 / 16384 characters that holds none of the characters
    / * " ' \\ # (a generated table, a long expression, a run of blanks), placed directly after a line that leaves the
    scanner in each of its carry-over states (comment or literal continued by backslash-newline, open block comment,
    pending `/` or `*`), followed by ordinary lines."""
    k = 0
    for name, head in CARRY_HEADS:
        for n in (4095, 4096, 4097, 5000, 8193, 20000):
            unit = PLAIN_UNITS[k % len(PLAIN_UNITS)]
            k += 1
            body = (unit * (n // len(unit) + 1))[:n]
            closer = {"inside-block-comment": " end */ int z;", "string-continued": "\";", "char-continued": "';"}.get(name, "")
            yield name, n, "int first;\n" + head + "\n" + body + closer + "\nint b;\n/* c */ int d;\n"


def rewritten_file_check(ctx, work):
    """The same path analysed twice in one process, the file rewritten in between with the SAME size and the SAME
    modification time (a generated table regenerated reproducibly; cp -p; touch -r): every analysis reads the text
    that is there.  Files of 3 KiB .. 300 KiB; generation 2 turns every code line into a comment of the same length
    and the other way round."""
    from codebasin import file_parser, preprocessor
    acc = ctx.acc
    # a directory of its own: finder.find parses every file of the code base, and `work` holds whatever text the
    # other classes checked last (possibly one that an open finding makes unparsable)
    work = ctx.subdir("rewrite")
    for k, nlines in enumerate((100, 1500, 2500, 10000)):
        if (k + 3) % ctx.nshards != ctx.shard:
            continue
        gens = []
        for gen in (0, 1, 0):
            gens.append("".join(("int v%06d = %06d;\n" % (i, i)) if (i + gen) % 2 == 0 else ("// v%06d = %06d;;;;\n" % (i, i)) for i in range(nlines)))
        assert len(gens[0]) == len(gens[1])
        path = os.path.join(work, "table%d.c" % k)
        stamp = 1_600_000_000_000_000_000
        problems = []
        for g, text in enumerate(gens):
            with open(path, "w") as f:
                f.write(text)
            os.utime(path, ns=(stamp, stamp))
            ref = cscan.scan(text)
            try:
                tree = file_parser.FileParser(path).parse_file(summarize_only=False)
                seen = sorted(ln for node in tree.walk() if isinstance(node, preprocessor.CodeNode) for ln in node.lines)
                state, _ = cbi.run_find(work, {"p": [cbi.entry(path)]})
                lines, _ = cbi.per_line(state, path)
                seen2 = sorted(lines)
            except Exception as e:
                problems.append({"kind": "exception", "generation": g, "observed": f"{type(e).__name__}: {e}"})
                break
            acc.hook("H-FileParser")
            for what, got in (("FileParser", seen), ("finder.find", seen2)):
                if got != ref.counted:
                    problems.append({"kind": f"{what}: counted lines of a file rewritten with equal size and mtime", "generation": g,
                                     "bytes": len(text), "expected_first": ref.counted[:6], "observed_first": got[:6],
                                     "expected_n": len(ref.counted), "observed_n": len(got)})
        cells = {"file-rewritten-with-equal-size-and-mtime", "class:REWRITE"}
        if len(gens[0]) >= 32768:
            cells.add("file-rewritten-with-equal-size-and-mtime:>=32KiB")
        case = {"lines": nlines, "bytes": len(gens[0])}
        if problems:
            acc.violated({"input": case, "witness": dict(case, problems=problems[:4])}, cells=cells, cls="REWRITE", nontrivial=("rewrite", nlines))
        else:
            acc.held(cells=cells, cls="REWRITE", nontrivial=("rewrite", nlines))


def run_shard(ctx):
    b = bounds(ctx.tier)
    work = ctx.subdir("w")
    srng = ctx.rng(f"sample{ctx.shard}")
    # E1: all texts up to length L; partition on the first two characters
    L = b["L"]
    idx = 0
    for n in range(0, L + 1):
        if n <= 2:
            for t in itertools.product(ALPHABET, repeat=n):
                idx += 1
                if ctx.mine(idx):
                    check_text(ctx, "".join(t), "E1", work, srng)
            continue
        for head in itertools.product(ALPHABET, repeat=2):
            idx += 1
            if not ctx.mine(idx):
                continue
            h = "".join(head)
            for tail in itertools.product(ALPHABET, repeat=n - 2):
                check_text(ctx, h + "".join(tail), "E1", work, srng)
    # E2: sequences of vocabulary lines, with and without final newline
    K = b["K"]
    idx = 0
    for k in range(1, K + 1):
        for seq in itertools.product(range(len(VOCAB)), repeat=k):
            idx += 1
            if not ctx.mine(idx):
                continue
            text = "\n".join(VOCAB[i] for i in seq) + "\n"
            check_text(ctx, text, "E2", work, srng, via_file=(idx % 64 == ctx.shard))
            if k <= 2:
                check_text(ctx, text[:-1], "E2", work, srng)
    # R: random token-level texts, all through FileParser too
    rng = ctx.rng("random")
    for i in range(b["random"]):
        t = random_text(rng)
        if ctx.mine(i):
            check_text(ctx, t, "R", work, srng, via_file=True)
    # CARRY: long plain lines after every carry-over state (deterministic)
    for i, (name, n, t) in enumerate(carry_over_texts()):
        if ctx.mine(i):
            ctx.acc.cells["long-plain-line-after:" + name] += 1
            check_text(ctx, t, "CARRY", work, srng, via_file=True)
    # FIXED: hand-written texts around identifiers that end in a letter some lexers treat as a literal prefix (R, L, u8)
    # directly followed by a quote -- in C these are an identifier and a string (the "%"PRIdPTR"\\n" pattern)
    fixed = ["a \"b\"PTR\"c\" /* d\ne */\nint f;\n", "#define M STR\"a\" /* b\nc */ 1\nint g;\n", "x = R\"y\"; /* c\n c */ z;\n",
             "printf(\"%\"PRIdPTR\"\\n\", p); // c \\\n still comment\ncode;\n", "s = xR\"(\"; /* ) */ t;\n/* u\n*/ v;\n", "w = L\"a\" u8\"b\" U\"c\" R \"d\"; /*\n*/\n",
             "#if FOOR\"x\" /* c\n*/ == 0\nint h;\n#endif\n", "R\"\n\"; /* x */\ny;\n" if False else "q = BAR\"\" \"\"R; /* e\n f */\n"]
    for i, t in enumerate(fixed):
        if ctx.mine(i):
            ctx.acc.cells["identifier-ending-in-R-before-a-string"] += 1
            check_text(ctx, t, "FIXED", work, srng, via_file=True)
    rewritten_file_check(ctx, work)
    # LONG: physical lines longer than any plausible read buffer
    rng = ctx.rng("long")
    for i in range(b["long"]):
        t = long_text(rng)
        if ctx.mine(i):
            check_text(ctx, t, "LONG", work, srng, via_file=True)


LONG_FILL = [("a", "x"), ("/* ", "c"), ("\"", "s"), ("// ", "c"), ("# d ", "y"), ("", " "), ("b = ", "1 + ")]


def long_text(rng):
    """A random text in which one or two physical lines are longer than common read-buffer sizes (8 KiB .. 200 K
    characters): a long identifier, comment, string literal, // comment, directive, run of blanks or expression."""
    lines = random_text(rng).split("\n")
    for _ in range(rng.choice([1, 1, 2])):
        head, unit = rng.choice(LONG_FILL)
        n = rng.choice([8191, 8192, 8193, 65535, 65536, 65537, 70000, 131071, 131073, 200001])
        body = (unit * (n // len(unit) + 1))[:n]
        tail = {"/* ": " */", "\"": "\""}.get(head, "")
        lines.insert(rng.randint(0, len(lines)), head + body + tail + rng.choice(["", " z", ""]))
    return "\n".join(lines)


def replay(record, ctx):
    text = record["input"]["text"]
    ref = cscan.scan(text)
    if not ref.valid:
        return {"verdict": "excluded", "why": ref.why}
    try:
        problems = compare(text, ref, cbi_scan(text))
    except Exception as e:
        problems = [{"kind": "exception", "observed": f"{type(e).__name__}: {e}"}]
    return {"verdict": "violated" if problems else "held", "problems": problems, "reference": ref.counted}
