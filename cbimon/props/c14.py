"""
C14 -- results are deterministic and independent of enumeration order.

Monitored execution: the real CLIs in fresh interpreter processes (through
cbimon.launch), >=8 runs per generated code base under perturbations the
property says must not matter: PYTHONHASHSEED in {0,1,2,3,random}, files
created in different orders, os.scandir/os.listdir shuffled (H-order),
[platform.*] tables permuted.  Oracle: equality of the parsed outputs
(mappings / sets of sets; row order is not compared, see DESIGN section 8).
"""

import json
import os
import random
import shutil

from cbimon import cli
from cbimon.gen import forest
from cbimon.props import c06, c08

PROP = "C14"
RULE = ("C06-style code bases with >=2 (mostly >=3) platforms and duplicated files; each analysed 8 times in fresh processes: "
        "baseline + 4 hash seeds + shuffled directory enumeration (2 seeds) + files re-created in another order + platform "
        "tables permuted (combined with the others). Compared as mappings: summary rows/percentages/metrics, setmap, per-line "
        "attribution, coverage.json, duplicate groups; distance matrix on a sample. Non-trivial: the perturbations produced "
        ">=2 distinct iteration orders of the code base or of the platforms; distinct by (files, commands).")
ASSUMPTIONS = ["row order, entry order in coverage.json, numbering of duplicate groups and member order inside a group follow "
               "enumeration order by design and are not compared", "every value (counts, percentages, metrics, line lists) must be identical"]
REQUIRED_HOOKS = ["cli-runs"]


def bounds(tier):
    return {"cases": 20 if tier == "quick" else 700, "clustering": 2 if tier == "quick" else 25}


def required_cells(tier):
    return ["distinct-codebase-orders", "distinct-platform-orders", "distinct-scandir-orders", "hashseed", "shuffle", "creation-order",
            "toml-permuted", "duplicates-present", "cov-compared", "clustering-compared", "mode-flag-with-repeated-define", "file-symlinks", "cross-language-alias",
            "platform-names-case-variants", "pass-flags-reordered", "pass-headers-attributed", "clustering-with-case-variant-names",
            "order-dependent-exclude-patterns", "option-replacing-a-default-per-platform", "hard-linked-duplicate",
            "non-member-header:included-from-fortran-and-c", "non-member-header:forced-by-assembly-and-c",
            "competing-modes-under-hash-seeds", "platforms-sharing-one-database", "rounding-tie:distance", "rounding-tie:divergence",
            "rounding-tie:average-coverage", "rounding-tie:distinct-enumeration-orders", "identical-bytes-in-two-languages",
            "missing-database:platform-tables-permuted", "lookup:header-names-differing-only-in-case-none-exact",
            "lookup:include-chain>100-for-two-platforms-in-both-orders"]


PASS_CONFIG = """[[compiler.gcc.parser]]
flags = ["-fpass-a"]
action = "append_const"
dest = "passes"
const = "pa"

[[compiler.gcc.parser]]
flags = ["-fpass-b"]
action = "append_const"
dest = "passes"
const = "pb"

[[compiler.gcc.passes]]
name = "pa"
defines = ["PASS_A"]
include_paths = ["@ROOT@/passinc/a"]

[[compiler.gcc.passes]]
name = "pb"
defines = ["PASS_B"]
include_paths = ["@ROOT@/passinc/b"]
"""


def gen_case(rng, index=1):
    nplat = rng.choice([2, 3, 3, 4])
    case = forest.gen(rng, n_tus=rng.randint(nplat, nplat + 2), n_platforms=nplat, findable=True)
    for tu in case["tus"]:
        tu["search"] = [["I", d] for _, d in tu["search"]]
    if index % 2 == 0:
        # platform names that differ only in letter case
        ren = dict(zip(sorted({t["platform"] for t in case["tus"]}), ["gpu", "GPU", "Gpu", "gPU"]))
        for tu in case["tus"]:
            tu["platform"] = ren[tu["platform"]]
    # two extra compiler passes (user configuration in <root>/.cbi/config), each with its own search directory that holds
    # a header of the same name; the order of the two enabling flags is one of the perturbations
    case["passes"] = True
    for tu in case["tus"]:
        case["files"][tu["file"]] = case["files"][tu["file"]] + [
            ["chain", [["if", "defined(PASS_A) || defined(PASS_B)", [["include", "a", "ph.h"]]]]],
            ["chain", [["ifdef", "PH_A", [["code"]]], ["else", None, [["code"]]]]],
            ["chain", [["ifdef", "PH_B", [["code"]]], ["else", None, [["code"]]]]]]
    # a mode-enabling flag plus a macro given twice with different values: the first definition must win
    # whatever the hash seed (the gcc premise run does not see these extra arguments)
    for tu in case["tus"]:
        if rng.random() < 0.7:
            tu["extra_args"] = ["-fopenmp", "-DDUP=1", "-O2", "-DDUP=2", "-DDUP2=b", "-DDUP2=a", "-fpass-a", "-fpass-b"]
        case["files"][tu["file"]] = case["files"][tu["file"]] + [
            ["chain", [["if", "DUP == 1", [["code"]]], ["elif", "DUP == 2", [["code"]]], ["else", None, [["code"]]]]],
            ["chain", [["ifdef", "_OPENMP", [["code"]]], ["else", None, [["code"]]]]]]
    case["extra"] = dict(c06.EXTRA)
    case["extra"]["extra/kern.cu"] = ("int k0;\n#if defined(__CUDA_ARCH__) && __CUDA_ARCH__ >= 900\nint k90;\n#elif defined(__CUDA_ARCH__) && __CUDA_ARCH__ >= 800\n"
                                      "int k80;\n#elif defined(__CUDA_ARCH__) && __CUDA_ARCH__ >= 750\nint k75;\n#elif defined(__CUDA_ARCH__)\nint k70;\n#else\nint host;\n#endif\n")
    case["extra"]["passinc/a/ph.h"] = "#define PH_A 1\nint pha;\n"
    case["extra"]["passinc/b/ph.h"] = "#define PH_B 1\nint phb1;\nint phb2;\n"
    # file symlinks: a second name for a compiled file and for a header, and a name with another language's extension
    case["links"] = {}
    t0 = case["tus"][0]["file"]
    case["links"][os.path.join(os.path.dirname(t0), "alias_" + os.path.basename(t0))] = os.path.basename(t0)
    hdrs = sorted(r for r in case["files"] if r.endswith(".h") and not r.startswith("@"))
    if hdrs:
        h = rng.choice(hdrs)
        case["links"]["extra/deep/alias_" + os.path.basename(h)] = os.path.relpath(h, "extra/deep")
    case["links"]["extra/f_alias.inc"] = "f.f90"        # C++-style extension for a free-form Fortran file
    case["links"]["extra/u_alias.f90"] = "u.c"          # and the reverse
    # duplicates: copies of some files under other names
    case["dups"] = {}
    rels = sorted(case["files"])
    for i in range(rng.randint(1, 3)):
        src = rng.choice(rels)
        case["dups"][f"extra/copy{i}_{os.path.basename(src)}"] = src
    case["dups"]["extra/u2.c"] = "extra/u.c"
    # byte-identical copies whose extension belongs to ANOTHER language family (a C file's text as free-form Fortran and
    # the reverse): each name is read in its own language, whichever of the two the analysis meets first
    case["dups"]["extra/u_copy.F90"] = "extra/u.c"
    case["dups"]["extra/f_copy.hpp"] = "extra/f.f90"
    case["hard"] = {"extra/hl_u.c": "extra/u.c"}          # a second directory entry for a file that also has a copy
    return case


def build(case, base, order_seed):
    """(Re)create the tree with files written in an order derived from order_seed."""
    from cbimon.gen import cprog
    root, out = forest.paths(base)
    shutil.rmtree(root, ignore_errors=True)
    os.makedirs(root)
    os.makedirs(out, exist_ok=True)
    texts = {}
    for rel, body in case["files"].items():
        texts[rel] = cprog.render(body, prefix=forest.fid(rel)).text
    for rel, text in case["extra"].items():
        texts[rel] = text
    for rel, src in case["dups"].items():
        texts[rel] = texts[src]
    items = sorted(texts.items())
    random.Random(order_seed).shuffle(items)
    for rel, text in items:
        p = forest.abspath(root, out, rel)
        os.makedirs(os.path.dirname(p), exist_ok=True)
        with open(p, "w", encoding="latin-1", newline="") as f:
            f.write(text)
    for d in forest.INC_DIRS + ["src"]:
        os.makedirs(os.path.join(root, d), exist_ok=True)
    if case.get("passes"):
        os.makedirs(os.path.join(root, ".cbi"), exist_ok=True)
        with open(os.path.join(root, ".cbi", "config"), "w") as f:
            f.write(PASS_CONFIG.replace("@ROOT@", os.path.realpath(root)))
    for l, t in sorted(case.get("hard", {}).items()):
        os.makedirs(os.path.dirname(os.path.join(root, l)), exist_ok=True)
        os.link(os.path.join(root, t), os.path.join(root, l))
    links = sorted(case.get("links", {}).items())
    random.Random(order_seed + 1).shuffle(links)
    for l, t in links:
        p = os.path.join(root, l)
        os.makedirs(os.path.dirname(p), exist_ok=True)
        if not os.path.lexists(p) and os.path.exists(os.path.join(os.path.dirname(p), t)):
            os.symlink(t, p)
    return os.path.realpath(root)


def write_toml(case, base, root, perm_seed):
    if perm_seed % 2:
        # the two pass-enabling flags in the other order
        flip = lambda a: [x for x in a if not x.startswith("-fpass-")] + [x for x in reversed(a) if x.startswith("-fpass-")]
        case = dict(case, tus=[dict(tu, extra_args=flip(tu["extra_args"])) if tu.get("extra_args") else tu for tu in case["tus"]])
    c08.write_dbs(case, base)
    plats = sorted({t["platform"] for t in case["tus"]})
    # every platform also compiles one CUDA file with nvcc, each for its own architecture (an option that REPLACES a
    # default): what one platform's command selects must not depend on the platforms analysed before it
    for k, p in enumerate(plats):
        dbp = os.path.join(base, "dbs", forest.dbname(p))
        es = json.load(open(dbp))
        es.append({"file": os.path.join(root, "extra", "kern.cu"), "directory": root,
                   "arguments": ["nvcc", "--gpu-architecture=sm_%d" % [70, 80, 90, 75][k % 4], "-c", os.path.join(root, "extra", "kern.cu")]})
        with open(dbp, "w") as f:
            json.dump(es, f)
    # a second platform that names the very same database file as the first one: the two always go together
    twin = ("twin-of-" + plats[0], plats[0])
    tables = [(p, p) for p in plats] + [twin]
    random.Random(perm_seed).shuffle(tables)
    plats = [t[0] for t in tables]
    with open(os.path.join(root, "analysis.toml"), "w") as f:
        # exclude patterns whose ORDER matters (a negation after a wildcard), half in the file, half on the command line
        f.write("[codebase]\nexclude = [\"extra/deep/*\", \"!extra/deep/v.hpp\"]\n\n")
        for p, dbp in tables:
            f.write(f"[platform.\"{p}\"]\ncommands = \"{os.path.join(base, 'dbs', forest.dbname(dbp))}\"\n\n")
    return plats


CLI_EXCLUDES = ["-x", "*.s", "-x", "!a.s", "-x", "extra/lib-1.2/", "-x", "*.f90", "-x", "!f.f90"]


def one_run(case, base, root, hashseed, shuffle, do_clustering):
    """Returns a normalised observation dict (or {'error': ...})."""
    dump = os.path.join(base, "dump.json")
    launch = {"dump": dump}
    if shuffle is not None:
        launch["shuffle"] = shuffle
    reports = ["-R", "summary", "-R", "duplicates"] + (["-R", "clustering"] if do_clustering else [])
    rc, out, err = cli.run("codebasin", CLI_EXCLUDES + reports + ["analysis.toml"], root, launch=launch, hashseed=hashseed, timeout=600)
    if rc != 0:
        return {"error": f"codebasin rc={rc}: {err[-300:]} {out[-200:]}"}
    d = json.load(open(dump))
    s = cli.parse_summary(out)
    obs = {
        "summary_rows": {",".join(sorted(k)): list(v) for k, v in s["rows"].items()},
        "metrics": s["metrics"],
        "setmap": d["setmap"],
        "attribution": {os.path.relpath(k, root): v for k, v in d["attribution"].items()},
        "duplicates": sorted(sorted(os.path.relpath(p, root) for p in g) for g in cli.parse_duplicates(out)),
        "_orders": {"codebase": [os.path.relpath(p, root) for p in d["codebase_order"]], "platforms": d["platform_order"],
                    "scandir": d.get("scandir_orders", [])[:3], "row_order": [",".join(sorted(k)) for k in s["order"]]},
        "_stdout": out.split("Summary", 1)[-1],
    }
    if do_clustering:
        hdr, cells = cli.parse_distance_matrix(out)
        obs["distance_matrix"] = {"labels": hdr, "cells": {f"{a}|{b}": v for (a, b), v in cells.items()}}
    # coverage export for the first platform (sorted)
    p0 = sorted({t["platform"] for t in case["tus"]})[0]
    covp = os.path.join(base, "cov.json")
    rc, out2, err2 = cli.run("cbi-cov", ["compute", "-S", root, "-o", covp, os.path.join(base, "dbs", forest.dbname(p0))], root,
                             launch=({"shuffle": shuffle} if shuffle is not None else {}), hashseed=hashseed)
    if rc != 0:
        return {"error": f"cbi-cov rc={rc}: {err2[-300:]}"}
    cov = json.load(open(covp))
    obs["coverage"] = {e["file"]: [e["id"], sorted(e["used_lines"]), sorted(e["unused_lines"])] for e in cov}
    obs["_cov_n"] = len(cov)
    return obs


def check_case(ctx, case, base, cls, do_clustering=False):
    acc = ctx.acc
    shutil.rmtree(base, ignore_errors=True)
    os.makedirs(base)
    root = build(case, base, 0)
    from cbimon.gen import cprog
    rendered = {rel: cprog.render(body, prefix=forest.fid(rel)) for rel, body in case["files"].items()}
    ok, per_tu, _ = forest.gcc_expect(case, base, rendered)
    if not ok:
        acc.excluded("gcc-diagnostic", cls=cls)
        return
    variants = [("baseline", dict(hashseed="0", shuffle=None, order=0, perm=0)),
                ("hashseed", dict(hashseed="1", shuffle=None, order=0, perm=0)),
                ("hashseed", dict(hashseed="2", shuffle=None, order=0, perm=1)),
                ("hashseed", dict(hashseed="3", shuffle=None, order=0, perm=0)),
                ("hashseed", dict(hashseed="random", shuffle=None, order=0, perm=2)),
                ("shuffle", dict(hashseed="0", shuffle=11, order=0, perm=0)),
                ("shuffle", dict(hashseed="4", shuffle=12, order=0, perm=3)),
                ("creation-order", dict(hashseed="0", shuffle=None, order=7, perm=0)),
                ("toml-permuted", dict(hashseed="0", shuffle=None, order=0, perm=5))]
    cells = {"duplicates-present", "file-symlinks"}
    if case.get("hard"):
        cells.add("hard-linked-duplicate")
    if "extra/u_copy.F90" in case.get("dups", {}):
        cells.add("identical-bytes-in-two-languages")
    if os.path.islink(os.path.join(root, "extra/f_alias.inc")):
        cells.add("cross-language-alias")
    if any(tu.get("extra_args") for tu in case["tus"]):
        cells.add("mode-flag-with-repeated-define")
        if case.get("passes"):
            cells.add("pass-flags-reordered")
    if "GPU" in {t["platform"] for t in case["tus"]}:
        cells.add("platform-names-case-variants")
        if do_clustering:
            cells.add("clustering-with-case-variant-names")
    runs = []
    cur_order = 0
    for tag, v in variants:
        if v["order"] != cur_order:
            root = build(case, base, v["order"])
            cur_order = v["order"]
        write_toml(case, base, root, v["perm"])
        obs = one_run(case, base, root, v["hashseed"], v["shuffle"], do_clustering)
        acc.hook("cli-runs", 2)
        cells.add(tag)
        runs.append((tag, v, obs))
    problems = []
    base_obs = runs[0][2]
    if "error" in base_obs:
        acc.violated({"input": case, "witness": {"kind": "baseline run failed", "error": base_obs["error"]}}, cls=cls)
        return
    keys = [k for k in base_obs if not k.startswith("_")]
    for tag, v, obs in runs[1:]:
        if "error" in obs:
            problems.append({"kind": "run failed under perturbation", "variant": [tag, v], "error": obs["error"]})
            continue
        for k in keys:
            if obs.get(k) != base_obs.get(k):
                a, b = base_obs.get(k), obs.get(k)
                detail = None
                if isinstance(a, dict) and isinstance(b, dict):
                    dk = sorted(x for x in set(a) | set(b) if a.get(x) != b.get(x))[:4]
                    detail = {x: [a.get(x), b.get(x)] for x in dk}
                problems.append({"kind": f"{k} differs", "variant": [tag, v], "detail": detail if detail else [str(a)[:300], str(b)[:300]]})
    orders = lambda key: {json.dumps(o["_orders"][key]) for _, _, o in runs if "error" not in o}
    if len(orders("codebase")) >= 2:
        cells.add("distinct-codebase-orders")
    if len(orders("platforms")) >= 2:
        cells.add("distinct-platform-orders")
    if len({json.dumps(o["_orders"]["scandir"]) for t, _, o in runs if t == "shuffle" and "error" not in o}) >= 2:
        cells.add("distinct-scandir-orders")
    if "coverage" in base_obs:
        cells.add("cov-compared")
    if any(k.startswith("twin-of-") or ",twin-of-" in k for k in base_obs.get("summary_rows", {})):
        cells.add("platforms-sharing-one-database")
    ka = base_obs.get("attribution", {}).get("extra/kern.cu", {})
    if len({tuple(v) for v in ka.values()}) >= 3:
        cells.add("option-replacing-a-default-per-platform")      # the architecture-specific lines belong to different platforms
    if "extra/a.s" in base_obs.get("attribution", {}) and "extra/deep/v.hpp" in base_obs.get("attribution", {}):
        cells.add("order-dependent-exclude-patterns")      # the re-included files are members: the negations took effect
    att = base_obs.get("attribution", {})
    if all(any(v for v in att.get(f"passinc/{x}/ph.h", {}).values()) for x in "ab"):
        cells.add("pass-headers-attributed")
    if do_clustering:
        cells.add("clustering-compared")
    same_hash_runs = [o["_stdout"] for t, v, o in runs if "error" not in o and v["perm"] == 0 and v["shuffle"] is None and v["order"] == 0]
    if len(set(same_hash_runs)) == 1:
        cells.add("raw-stdout-identical")
    acc.extra["raw-stdout-distinct-across-all-runs"] += len({o["_stdout"] for _, _, o in runs if "error" not in o})
    nontriv = {"files": {k: str(v) for k, v in case["files"].items()}, "tus": case["tus"]} \
        if cells & {"distinct-codebase-orders", "distinct-platform-orders"} else None
    if problems:
        acc.violated({"input": case, "witness": {"problems": problems[:6], "commands": case["tus"]}}, cells=cells, nontrivial=nontriv, cls=cls)
    else:
        acc.held(cells=cells, nontrivial=nontriv, cls=cls,
                 sample={"commands": case["tus"], "orders_seen": {"codebase": len(orders("codebase")), "platforms": len(orders("platforms"))},
                         "summary_rows": base_obs["summary_rows"], "duplicates": base_obs["duplicates"]})


def mixed_language_scenarios(ctx, base):
    """Two fixed scenarios in which the order of the [platform.*] tables decides which command reaches a header that is
    NOT a member of the code base first (members are parsed up front, by extension):
      A  a header outside the root, #included by a free-form Fortran file (platform f) and by a C file (platform c);
      B  a generated header excluded by pattern, forced with -include by an assembly file and by a C file.
    Both are run twice in fresh processes with the platform tables in either order; the results must be equal."""
    acc = ctx.acc
    for name in ("A", "B"):
        d = os.path.join(base, "mixed" + name)
        shutil.rmtree(d, ignore_errors=True)
        root = os.path.join(d, "root")
        os.makedirs(os.path.join(root, "build"))
        os.makedirs(os.path.join(d, "ext"))
        hdr = "! shared settings: don't edit\n#define FROM_H 1\n/* C comment\n#define IN_C_COMMENT 1\n*/\n"
        if name == "A":
            files = {"a.f90": "program p\n#include \"shared.h\"\n#ifdef FROM_H\n  x = 1\n#endif\n#ifdef IN_C_COMMENT\n  y = 2\n#endif\nend program p\n",
                     "b.c": "#include \"shared.h\"\n#ifdef FROM_H\nint x;\n#endif\n#ifdef IN_C_COMMENT\nint y;\n#endif\n"}
            with open(os.path.join(d, "ext", "shared.h"), "w") as f:
                f.write(hdr)
            dbs = {"f": [{"file": "a.f90", "arguments": ["gfortran", "-I", os.path.join(d, "ext"), "-c", "a.f90"]}],
                   "c": [{"file": "b.c", "arguments": ["gcc", "-I", os.path.join(d, "ext"), "-c", "b.c"]}]}
            excl = []
        else:
            files = {"startup.S": "#ifdef HAVE_FAST_PATH\n  mov r0, r1\n#else\n  mov r1, r0\n#endif\n",
                     "main.c": "#ifdef HAVE_FAST_PATH\nint fast;\n#else\nint slow;\nint slower;\n#endif\n",
                     "build/config.h": "// generated -- don't edit\n#define HAVE_FAST_PATH 1\n"}
            dbs = {"x86": [{"file": "startup.S", "arguments": ["gcc", "-include", "build/config.h", "-c", "startup.S"]},
                           {"file": "main.c", "arguments": ["gcc", "-include", "build/config.h", "-c", "main.c"]}],
                   "arm": [{"file": "main.c", "arguments": ["gcc", "-include", "build/config.h", "-c", "main.c"]}]}
            excl = ["build/"]
        for rel, text in files.items():
            with open(os.path.join(root, rel), "w") as f:
                f.write(text)
        for p, es in dbs.items():
            with open(os.path.join(root, p + ".json"), "w") as f:
                json.dump([dict(e, directory=root) for e in es], f)
        results = []
        for order in (sorted(dbs), sorted(dbs, reverse=True)):
            with open(os.path.join(root, "analysis.toml"), "w") as f:
                if excl:
                    f.write("[codebase]\nexclude = [%s]\n\n" % ", ".join('"%s"' % x for x in excl))
                for p in order:
                    f.write(f"[platform.{p}]\ncommands = \"{p}.json\"\n\n")
            dump = os.path.join(d, "dump.json")
            rc, out, err = cli.run("codebasin", ["-R", "summary", "analysis.toml"], root, launch={"dump": dump})
            acc.hook("cli-runs")
            if rc != 0:
                results.append({"error": err[-300:]})
                continue
            dd = json.load(open(dump))
            results.append({"setmap": dd["setmap"], "attribution": {os.path.relpath(k, root): v for k, v in dd["attribution"].items()}})
        cells = {"non-member-header:" + ("included-from-fortran-and-c" if name == "A" else "forced-by-assembly-and-c")}
        rec = {"input": {"scenario": name}, "witness": {"scenario": name, "orders": [sorted(dbs), sorted(dbs, reverse=True)],
                                                         "setmaps": [r.get("setmap", r.get("error")) for r in results]}}
        if results[0] != results[1]:
            acc.violated(rec, mechanism="non-member-header-parsed-in-the-language-of-its-first-includer" if name == "A" else None, cells=cells, cls="mixed")
        else:
            acc.held(cells=cells, cls="mixed", nontrivial={"scenario": name})


def competing_modes_scenario(ctx, base):
    """One command enables two modes of a user-defined compiler that define the same macro differently and bring search
    directories holding a same-named header: whichever rule decides between them, it must not be the string-hash seed."""
    acc = ctx.acc
    d = os.path.join(base, "modes")
    shutil.rmtree(d, ignore_errors=True)
    root = os.path.join(d, "root")
    for sub in ("ia", "ib", ".cbi"):
        os.makedirs(os.path.join(root, sub))
    files = {"ia/which.h": "#define WHICH_A 1\nint a;\n", "ib/which.h": "#define WHICH_B 1\nint b1;\nint b2;\n",
             "main.c": "#include <which.h>\n#if LEVEL == 1\nint one;\n#elif LEVEL == 2\nint two;\nint deux;\n#endif\n#ifdef WHICH_A\nint wa;\n#endif\n",
             ".cbi/config": "[compiler.mycc]\n" + "".join(
                 f'[[compiler.mycc.parser]]\nflags = ["-f{x}"]\naction = "append_const"\ndest = "modes"\nconst = "m{x}"\n\n' for x in "ab") + "".join(
                 f'[[compiler.mycc.modes]]\nname = "m{x}"\ndefines = ["LEVEL={n}"]\ninclude_paths = ["{root}/i{x}"]\n\n' for x, n in (("a", 1), ("b", 2)))}
    for rel, text in files.items():
        with open(os.path.join(root, rel), "w") as f:
            f.write(text)
    with open(os.path.join(root, "db.json"), "w") as f:
        json.dump([{"file": "main.c", "directory": root, "arguments": ["mycc", "-fa", "-fb", "-c", "main.c"]}], f)
    with open(os.path.join(root, "analysis.toml"), "w") as f:
        f.write('[platform.p]\ncommands = "db.json"\n')
    results = {}
    for seed in ("0", "1", "2", "3", "4", "5", "6", "7"):
        dump = os.path.join(d, "dump.json")
        rc, out, err = cli.run("codebasin", ["-R", "summary", "analysis.toml"], root, launch={"dump": dump}, hashseed=seed)
        acc.hook("cli-runs")
        results[seed] = json.dumps(json.load(open(dump))["setmap"], sort_keys=True) if rc == 0 else "error: " + err[-200:]
    cells = {"competing-modes-under-hash-seeds"}
    if len(set(results.values())) != 1:
        acc.violated({"input": {"scenario": "competing modes"}, "witness": {"kind": "result depends on PYTHONHASHSEED", "setmap_by_seed": results}}, cells=cells, cls="mixed")
    else:
        acc.held(cells=cells, cls="mixed", nontrivial={"scenario": "competing modes"})


# Platform-set tables whose metrics sit exactly on a rounding boundary of the two-decimal output, found by exhaustive
# search over small tables (tools/find_rounding_ties.py): the mathematically exact value is x.xx5, and floating-point
# sums taken in different orders land on either side of it.
TIES = {
    # distance(B, C) = (3 + 8 + 6 + 4) / 24 = 0.875: four terms summed in the order the table was filled
    "distance": ({"": 1, "A": 5, "B": 3, "C": 8, "A,B": 6, "A,C": 4, "B,C": 3}, "enumeration order of the files"),
    "distance-2": ({"": 3, "A": 7, "B": 4, "C": 5, "A,B": 3, "A,C": 6, "B,C": 4}, "enumeration order of the files"),
    # divergence = mean of three distances, summed in the order a set of platform names iterates
    "divergence": ({"": 4, "A": 7, "B": 3, "A,B": 1, "A,C": 1, "B,C": 1, "A,B,C": 2}, "string-hash seed"),
    "divergence-2": ({"": 1, "A": 1, "B": 1, "C": 7, "A,B": 2, "A,C": 7, "B,C": 6, "A,B,C": 7}, "string-hash seed"),
    # average coverage = mean of 100*u/24 for u = 1, 1, 1, 6: 9.375
    "average-coverage": ({"": 15, "A": 1, "B": 1, "C": 1, "D": 6}, "string-hash seed"),
    "average-coverage-2": ({"": 5, "A": 1, "B": 2, "C": 5, "D": 7, "A,B": 4}, "string-hash seed"),
}


def rounding_tie_scenarios(ctx, base, names):
    """A code base with one file per platform set and exactly the line counts of a TIES table, analysed in fresh
    processes under 8 hash seeds, 6 shuffled directory enumerations and 3 file-creation orders; every printed number
    (summary metrics and distance matrix) must be the same in all of them."""
    acc = ctx.acc
    for name in names:
        table, what = TIES[name]
        d = os.path.join(base, "tie-" + name)
        shutil.rmtree(d, ignore_errors=True)
        root = os.path.join(d, "root")
        plats = sorted({p for k in table for p in k.split(",") if p})
        variants = [("hashseed", dict(hashseed=str(h), shuffle=None, order=0)) for h in range(8)] + \
                   [("shuffle", dict(hashseed="0", shuffle=20 + k, order=0)) for k in range(6)] + \
                   [("creation-order", dict(hashseed="0", shuffle=None, order=k)) for k in (1, 2, 3)]
        results = []
        cur = None
        for tag, v in variants:
            if v["order"] != cur:
                shutil.rmtree(root, ignore_errors=True)
                os.makedirs(os.path.join(root, "src"))
                items = sorted(table.items())
                random.Random(v["order"]).shuffle(items)
                for key, count in items:
                    with open(os.path.join(root, "src", "s_%s.c" % (key.replace(",", "") or "none")), "w") as f:
                        f.write("".join("int v%d;\n" % i for i in range(count)))
                for p in plats:
                    with open(os.path.join(root, p + ".json"), "w") as f:
                        json.dump([{"file": "src/s_%s.c" % key.replace(",", ""), "directory": root,
                                    "arguments": ["gcc", "-c", "src/s_%s.c" % key.replace(",", "")]}
                                   for key in sorted(table) if p in key.split(",")], f)
                with open(os.path.join(root, "analysis.toml"), "w") as f:
                    for p in plats:
                        f.write(f"[platform.{p}]\ncommands = \"{p}.json\"\n\n")
                cur = v["order"]
            dump = os.path.join(d, "dump.json")
            launch = {"dump": dump}
            if v["shuffle"] is not None:
                launch["shuffle"] = v["shuffle"]
            rc, out, err = cli.run("codebasin", ["-R", "summary", "-R", "clustering", "analysis.toml"], root, launch=launch,
                                   hashseed=v["hashseed"], timeout=600)
            acc.hook("cli-runs")
            if rc != 0:
                results.append((tag, v, {"error": err[-300:]}))
                continue
            dd = json.load(open(dump))
            sm = cli.parse_summary(out)
            hdr, cells_ = cli.parse_distance_matrix(out)
            results.append((tag, v, {"metrics": sm["metrics"], "distance_matrix": {f"{a}|{b}": x for (a, b), x in sorted(cells_.items())},
                                     "setmap": dd["setmap"], "_order": [os.path.basename(q) for q in dd["codebase_order"]]}))
        cells = {"rounding-tie:" + name.split("-2")[0]}
        ok = [o for _, _, o in results if "error" not in o]
        want = {k: c for k, c in table.items()}
        got = {",".join(sorted(k.split(","))) if k else "": c for k, c in (ok[0]["setmap"].items() if ok else [])}
        if not ok or {k: c for k, c in got.items() if c} != {k: c for k, c in want.items() if c}:
            # the constructed code base did not realise the table: nothing can be concluded from it
            acc.inconc("rounding-tie table not realised: " + name, {"expected": want, "observed": got or results[0][2]})
            continue
        if len({json.dumps(o["_order"]) for o in ok}) >= 2:
            cells.add("rounding-tie:distinct-enumeration-orders")
        distinct = {json.dumps({k: o[k] for k in ("metrics", "distance_matrix")}, sort_keys=True) for o in ok}
        errors = [(t, v, o["error"]) for t, v, o in results if "error" in o]
        if len(distinct) > 1 or errors:
            by = {}
            for t, v, o in results:
                if "error" not in o:
                    by.setdefault(json.dumps({"metrics": o["metrics"], "distance_matrix": o["distance_matrix"]}, sort_keys=True), []).append([t, v])
            acc.violated({"input": {"scenario": "rounding tie", "table": table},
                          "witness": {"kind": "printed metrics depend on " + what, "table": table, "outputs": [
                              {"output": json.loads(k), "runs": r[:4], "n_runs": len(r)} for k, r in by.items()], "errors": errors[:2]}},
                         cells=cells, cls="tie")
        else:
            acc.held(cells=cells, cls="tie", nontrivial={"table": table})


def missing_database_scenario(ctx, base):
    """One of three platforms names a commands file that does not exist.  Whatever the front end does about it (abort,
    or go on without that platform), it must be the same for every order of the [platform.*] tables."""
    import itertools as _it
    acc = ctx.acc
    d = os.path.join(base, "missingdb")
    shutil.rmtree(d, ignore_errors=True)
    root = os.path.join(d, "root")
    os.makedirs(root)
    files = {"a.c": "#ifdef CPU\nint c1;\n#endif\n#ifdef GPU\nint g1;\nint g2;\n#endif\nint both;\n", "b.c": "int b;\n"}
    for rel, text in files.items():
        with open(os.path.join(root, rel), "w") as f:
            f.write(text)
    for p, defs in (("cpu", ["CPU"]), ("gpu", ["GPU"])):
        with open(os.path.join(root, p + ".json"), "w") as f:
            json.dump([{"file": "a.c", "directory": root, "arguments": ["gcc"] + ["-D" + x for x in defs] + ["-c", "a.c"]}], f)
    outcomes = {}
    for order in _it.permutations(["cpu", "gpu", "phi"]):
        with open(os.path.join(root, "analysis.toml"), "w") as f:
            for p in order:
                f.write(f"[platform.{p}]\ncommands = \"{p}.json\"\n\n")
        dump = os.path.join(d, "dump.json")
        if os.path.exists(dump):
            os.unlink(dump)
        rc, out, err = cli.run("codebasin", ["-R", "summary", "analysis.toml"], root, launch={"dump": dump})
        acc.hook("cli-runs")
        sm = json.load(open(dump))["setmap"] if rc == 0 and os.path.exists(dump) else None
        outcomes[" ".join(order)] = {"rc": rc, "setmap": sm, "rows": sorted(",".join(sorted(k)) for k in cli.parse_summary(out)["rows"]) if rc == 0 else None}
    cells = {"missing-database:platform-tables-permuted"}
    distinct = {json.dumps(v, sort_keys=True) for v in outcomes.values()}
    if len(distinct) != 1:
        acc.violated({"input": {"scenario": "missing database"}, "witness": {"kind": "outcome depends on the order of the platform tables", "outcomes": outcomes}},
                     cells=cells, cls="mixed")
    else:
        acc.held(cells=cells, cls="mixed", nontrivial={"scenario": "missing database"})


def order_sensitive_lookups_scenarios(ctx, base):
    """Two fixed code bases whose analysis must not depend on enumeration or table order although a shortcut in the
    look-up code would make it:
      K  `#include "settings.h"` where only Settings.h and SETTINGS.h exist (different contents): under every directory
         order the include stays unresolved (or resolves the same way);
      D  an include chain 104 headers deep compiled identically by two platforms: both orders of the platform tables
         give each platform the same lines."""
    acc = ctx.acc
    for name in ("K", "D"):
        d = os.path.join(base, "lookup" + name)
        shutil.rmtree(d, ignore_errors=True)
        root = os.path.join(d, "root")
        os.makedirs(os.path.join(root, "inc"))
        if name == "K":
            files = {"main.c": "#include \"settings.h\"\n#include <Config.H>\nint m;\n#ifdef FAST\nint fast;\nint fast2;\n#else\nint slow;\n#endif\n",
                     "inc/Settings.h": "#define FAST 1\nint s1;\n", "inc/SETTINGS.h": "int s2;\nint s3;\nint s4;\n", "inc/sETTINGS.H": "#define FAST 2\n",
                     "inc/config.h": "#define FAST 3\n", "inc/CONFIG.h": "int c;\n"}
            dbs = {"cpu": [{"file": "main.c", "directory": root, "arguments": ["gcc", "-Iinc", "-c", "main.c"]}]}
            variants = [dict(hashseed=str(h), shuffle=None, order=0, tables=["cpu"]) for h in range(3)] + \
                       [dict(hashseed="0", shuffle=30 + k, order=0, tables=["cpu"]) for k in range(6)] + \
                       [dict(hashseed="0", shuffle=None, order=k, tables=["cpu"]) for k in (1, 2, 3)]
        else:
            files = {"main.c": "#include \"h001.h\"\nint m;\n"}
            for k in range(1, 105):
                files["inc/h%03d.h" % k] = ("#include \"h%03d.h\"\n" % (k + 1) if k < 104 else "") + "int v%d;\n" % k
            dbs = {p: [{"file": "main.c", "directory": root, "arguments": ["gcc", "-Iinc", "-c", "main.c"]}] for p in ("A", "B")}
            variants = [dict(hashseed="0", shuffle=None, order=0, tables=["A", "B"]), dict(hashseed="0", shuffle=None, order=0, tables=["B", "A"]),
                        dict(hashseed="1", shuffle=31, order=0, tables=["B", "A"]), dict(hashseed="2", shuffle=None, order=1, tables=["A", "B"])]
        results = []
        cur = None
        for v in variants:
            if v["order"] != cur:
                shutil.rmtree(root, ignore_errors=True)
                os.makedirs(os.path.join(root, "inc"))
                items = sorted(files.items())
                random.Random(v["order"]).shuffle(items)
                for rel, text in items:
                    with open(os.path.join(root, rel), "w") as f:
                        f.write(text)
                for p, es in dbs.items():
                    with open(os.path.join(root, p + ".json"), "w") as f:
                        json.dump(es, f)
                cur = v["order"]
            with open(os.path.join(root, "analysis.toml"), "w") as f:
                for p in v["tables"]:
                    f.write(f"[platform.{p}]\ncommands = \"{p}.json\"\n\n")
            dump = os.path.join(d, "dump.json")
            launch = {"dump": dump}
            if v["shuffle"] is not None:
                launch["shuffle"] = v["shuffle"]
            rc, out, err = cli.run("codebasin", ["-R", "summary", "analysis.toml"], root, launch=launch, hashseed=v["hashseed"], timeout=900)
            acc.hook("cli-runs")
            if rc != 0:
                results.append((v, {"error": err[-300:]}))
                continue
            dd = json.load(open(dump))
            results.append((v, {"setmap": dd["setmap"], "attribution": {os.path.relpath(k_, os.path.realpath(root)): x for k_, x in dd["attribution"].items()}}))
        cells = {"lookup:" + ("header-names-differing-only-in-case-none-exact" if name == "K" else "include-chain>100-for-two-platforms-in-both-orders")}
        distinct = {json.dumps(o, sort_keys=True) for _, o in results}
        if len(distinct) != 1 or any("error" in o for _, o in results):
            by = {}
            for v, o in results:
                by.setdefault(json.dumps(o.get("setmap", o), sort_keys=True), []).append(v)
            acc.violated({"input": {"scenario": "lookup-" + name}, "witness": {"kind": "result depends on enumeration / table order", "setmaps": [
                {"setmap": json.loads(k_), "runs": r_[:3], "n_runs": len(r_)} for k_, r_ in by.items()]}}, cells=cells, cls="mixed")
        else:
            acc.held(cells=cells, cls="mixed", nontrivial={"scenario": "lookup-" + name})


def run_shard(ctx):
    b = bounds(ctx.tier)
    base = os.path.join(ctx.scratch, "c14")
    if ctx.shard == 0:
        mixed_language_scenarios(ctx, base)
    if ctx.shard == 1 % ctx.nshards:
        competing_modes_scenario(ctx, base + "-modes")
    if ctx.shard == 2 % ctx.nshards:
        missing_database_scenario(ctx, base + "-missingdb")
    if ctx.shard == 3 % ctx.nshards:
        order_sensitive_lookups_scenarios(ctx, base + "-lookup")
    tie_names = sorted(TIES)
    mine = [n for k, n in enumerate(tie_names) if (k + 2) % ctx.nshards == ctx.shard]
    if mine:
        rounding_tie_scenarios(ctx, base + "-tie", mine)
    rng = ctx.rng("cases")
    for i in range(b["cases"]):
        case = gen_case(rng, i)
        if ctx.mine(i):
            check_case(ctx, case, base, "R", do_clustering=(i < b["clustering"]))
    shutil.rmtree(base, ignore_errors=True)


def replay(record, ctx):
    check_case(ctx, record["input"], os.path.join(ctx.scratch, "c14"), "replay")
    return {"verdict": "violated" if ctx.acc.verdicts["violated"] else "held", "violations": ctx.acc.violations}
