"""
C07 -- coverage, average coverage, distance and divergence equal their
definitions.

Monitor shape: reference model (exact rational arithmetic written from the
property statement) + metamorphic monitors (rename / reorder / scale), applied
to return values of the real `codebasin.report` functions for every table of
the enumerated space and for random large tables.
"""

import itertools
import re
import os
import math
import warnings
from fractions import Fraction

PROP = "C07"
RULE = ("tables = mappings frozenset(platforms) -> count. Enumerated: every table over <=3 platforms "
        "with per-row value in {absent,0,1,2,5} (quick: <=2 platforms complete, 3 platforms with <=4 rows "
        "present); random: <=8 platforms, counts <=10^12. Each table is evaluated for every non-empty "
        "`platforms` argument (as set, list, tuple, frozenset and dict keys view), every ordered platform pair, renamed, row-shuffled and "
        "scaled by 2 and 1000. Non-trivial = table has >=1 platform and >=1 line; distinct by canonical "
        "row list.")
ASSUMPTIONS = [
    "fractions.Fraction re-implementation of the four definitions is the oracle",
    "tolerance 1e-9 relative (floats returned by report.py)",
    "distance(p,q) with no line used by p or q is 0/0: NaN or 0.0 accepted, an exception is not",
    "an explicitly empty `platforms=` collection is not exercised",
]
CASE_NAMES = ["GPU", "gpu", "Gpu", "gPU", "stra\u00dfe", "STRASSE", "strasse", "\u212a"]   # equal under lower()/casefold()
NAMES3 = ["cpu", "cpu-avx512", "gpu"]     # one name is a substring of another on purpose
VALUES = [None, 0, 1, 2, 5]


def bounds(tier):
    return {"enumerated_platforms": 3, "row_values": [str(v) for v in VALUES],
            "random_tables": 400 if tier == "quick" else 20000, "random_max_platforms": 8,
            "clustering_per_shard": 12 if tier == "quick" else 150,
            "random_max_count": 10 ** 12}


def exhaustive(tier):
    return True


def required_cells(tier):
    return ["undefined:coverage-no-lines", "undefined:coverage-no-platforms", "undefined:divergence-lt2",
            "undefined:distance-empty-union", "row:empty-set", "row:zero-count", "shared-only-platform",
            "arg:subset-size-1", "arg:subset-size-k-1", "meta:rename", "meta:reorder", "meta:scale",
            "class:enum", "class:random", "names:substring-related", "meta:rename-case-variants",
            "class:clustering", "clustering:platforms>=4", "clustering:>=4-distinct-distances", "clustering:average-marker",
            "summary-report", "summary-report:nan", "name:empty-string", "name:glob-metacharacters",
            "filetree:platform-added-between-printouts", "mapping-updated-in-place-between-calls", "clustering:undefined-distance", "summary-report:to-a-terminal", "logger-at-debug-level"]


# ---------------------------------------------------------------- oracle --
def ref_platforms(table):
    s = set()
    for k in table:
        s |= set(k)
    return s


def ref_coverage(table, platforms=None):
    """100 * lines used by >=1 selected platform / all lines; None == NaN."""
    if platforms is None:
        platforms = ref_platforms(table)
    total = sum(table.values())
    if total == 0 or len(platforms) == 0:
        return None
    used = sum(c for k, c in table.items() if any(p in k for p in platforms))
    return Fraction(100 * used, total)


def ref_avg_coverage(table, platforms=None):
    if platforms is None:
        platforms = ref_platforms(table)
    if len(platforms) == 0 or sum(table.values()) == 0:
        return None
    vals = [ref_coverage(table, [p]) for p in platforms]
    return sum(vals) / len(vals)


def ref_distance(table, p, q):
    union = sum(c for k, c in table.items() if p in k or q in k)
    if union == 0:
        return None
    sym = sum(c for k, c in table.items() if (p in k) != (q in k))
    return Fraction(sym, union)


def ref_divergence(table):
    """Returns (value|None, ambiguous) -- ambiguous when some pair has an empty union."""
    ps = sorted(ref_platforms(table))
    if len(ps) < 2 or sum(table.values()) == 0:
        return None, False
    ds = [ref_distance(table, p, q) for p, q in itertools.combinations(ps, 2)]
    if any(d is None for d in ds):
        alt = sum((d or 0) for d in ds) / len(ds)
        return alt, True
    return sum(ds) / len(ds), False


def close(obs, exp):
    if exp is None:
        return isinstance(obs, float) and math.isnan(obs)
    if not isinstance(obs, (int, float)) or isinstance(obs, bool) and False:
        try:
            obs = float(obs)
        except Exception:
            return False
    if math.isnan(obs):
        return False
    e = float(exp)
    return abs(obs - e) <= 1e-9 * max(1.0, abs(e))


# ----------------------------------------------------------------- cases --
def all_subsets(names):
    out = []
    for r in range(len(names) + 1):
        for c in itertools.combinations(names, r):
            out.append(frozenset(c))
    return out


def enum_tables(tier, shard, nshards):
    """Yield (rows) lists [(tuple(sorted set)), count] for this shard."""
    idx = 0
    # <=2 platforms: complete
    for names in (["cpu"], ["cpu", "cpu-avx512"]):
        subs = all_subsets(names)
        for vals in itertools.product(VALUES, repeat=len(subs)):
            idx += 1
            if idx % nshards != shard:
                continue
            yield [(tuple(sorted(s)), v) for s, v in zip(subs, vals) if v is not None]
    subs = all_subsets(NAMES3)
    if tier == "quick":
        for k in range(0, 5):
            for present in itertools.combinations(range(8), k):
                for vals in itertools.product(VALUES[1:], repeat=k):
                    idx += 1
                    if idx % nshards != shard:
                        continue
                    yield [(tuple(sorted(subs[i])), v) for i, v in zip(present, vals)]
    else:
        for vals in itertools.product(VALUES, repeat=8):
            idx += 1
            if idx % nshards != shard:
                continue
            yield [(tuple(sorted(s)), v) for s, v in zip(subs, vals) if v is not None]


def random_tables(ctx):
    rng = ctx.rng("random")
    n = bounds(ctx.tier)["random_tables"]
    for i in range(n):
        k = rng.randint(1, 8)
        names = [f"p{j}" for j in range(k)]
        if rng.random() < 0.3:
            names = [rng.choice(["cpu", "gpu", "x", "Z", "a b", "é", "0"]) + str(j) for j in range(k)]
            names[0] = rng.choice(["", "0", names[0]])          # falsy / blank names are names too
            if k >= 2:
                names[1] = rng.choice(["gpu[0]", "sm_*", "a?b", "[!x]", names[1]])      # names that are glob patterns
        elif rng.random() < 0.4:
            names = ["p" * (j + 1) for j in range(k)]       # p, pp, ppp: every name is a substring of the next
        elif rng.random() < 0.3:
            names = CASE_NAMES[:k]                          # names that differ only in letter case
        nrows = rng.randint(0, min(2 ** k, 14))
        rows = {}
        for _ in range(nrows):
            s = tuple(sorted(n_ for n_ in names if rng.random() < rng.choice([0.2, 0.5, 0.8])))
            mag = rng.choice([1, 10, 1000, 10 ** 6, 10 ** 9, 10 ** 12])
            rows[s] = rng.choice([0, 1, rng.randint(0, mag), mag])
        if not ctx.mine(i):
            continue
        yield list(rows.items())


# ----------------------------------------------------------------- check --
class Watch:
    """Calls a report function, recording result or exception."""

    def __init__(self):
        self.calls = 0

    def __call__(self, fn, *a):
        self.calls += 1
        try:
            with warnings.catch_warnings():
                warnings.simplefilter("ignore")
                return ("ok", fn(*a))
        except Exception as e:  # the witness
            return ("exc", f"{type(e).__name__}: {e}")


def mk(rows):
    return {frozenset(k): v for k, v in rows}


def check_table(rows, report, watch, rng):
    """Returns (problems, cells). problem = dict(metric, args, expected, observed, mech)."""
    table = mk(rows)
    problems = []
    cells = set()
    ps = sorted(ref_platforms(table))
    total = sum(table.values())
    if frozenset() in table:
        cells.add("row:empty-set")
    if "" in ps:
        cells.add("name:empty-string")
    if any(ch in p for p in ps for ch in "[*?"):
        cells.add("name:glob-metacharacters")
    if any(v == 0 for v in table.values()):
        cells.add("row:zero-count")
    for p in ps:
        if all(len(k) > 1 for k in table if p in k):
            cells.add("shared-only-platform")
        if any(p != q and p in q for q in ps):
            cells.add("names:substring-related")

    def expect(metric, args, res, exp, alt_ok=()):
        st, val = res
        if st == "exc":
            problems.append({"metric": metric, "args": args, "expected": str(exp), "observed": val})
            return
        if close(val, exp):
            return
        for a in alt_ok:
            if close(val, a):
                return
        problems.append({"metric": metric, "args": args, "expected": "NaN" if exp is None else str(exp),
                         "observed": repr(val)})

    # coverage / average coverage, default and every non-empty subset argument
    exp = ref_coverage(table)
    if exp is None:
        cells.add("undefined:coverage-no-lines" if total == 0 else "undefined:coverage-no-platforms")
    expect("coverage", None, watch(report.coverage, table), exp)
    expect("average_coverage", None, watch(report.average_coverage, table), ref_avg_coverage(table))
    for r in range(1, len(ps) + 1):
        if len(ps) > 4 and r not in (1, len(ps) - 1, len(ps)):
            continue
        combos = list(itertools.combinations(ps, r))
        if len(combos) > 8:
            combos = rng.sample(combos, 8)
        for sub in combos:
            if r == 1:
                cells.add("arg:subset-size-1")
            if r == len(ps) - 1 and r >= 1:
                cells.add("arg:subset-size-k-1")
            for arg in (set(sub), list(sub), tuple(sub), frozenset(sub), dict.fromkeys(sub).keys()):
                expect("coverage", sorted(sub), watch(report.coverage, table, arg), ref_coverage(table, sub))
                expect("average_coverage", sorted(sub), watch(report.average_coverage, table, arg),
                       ref_avg_coverage(table, sub))
    # ranges
    # distance: all ordered pairs incl. diagonal
    pairs = list(itertools.product(ps, ps))
    if len(pairs) > 16:
        pairs = rng.sample(pairs, 16)
    for p, q in pairs:
        e = ref_distance(table, p, q)
        res = watch(report.distance, table, p, q)
        if e is None:
            cells.add("undefined:distance-empty-union")
            expect("distance", [p, q], res, None, alt_ok=(Fraction(0),))
        else:
            expect("distance", [p, q], res, e)
            if p == q and e != 0:
                problems.append({"metric": "oracle", "args": [p, q], "expected": "0", "observed": str(e)})
        res2 = watch(report.distance, table, q, p)
        if res[0] == "ok" and res2[0] == "ok":
            a, b = res[1], res2[1]
            if not ((math.isnan(a) and math.isnan(b)) or a == b):
                problems.append({"metric": "distance-symmetry", "args": [p, q], "expected": repr(a),
                                 "observed": repr(b)})
        if res[0] == "ok" and not math.isnan(res[1]) and not (0.0 <= res[1] <= 1.0 + 1e-12):
            problems.append({"metric": "distance-range", "args": [p, q], "expected": "[0,1]",
                             "observed": repr(res[1])})
    dv, amb = ref_divergence(table)
    if dv is None:
        cells.add("undefined:divergence-lt2")
    resd = watch(report.divergence, table)
    expect("divergence", None, resd, None if amb else dv, alt_ok=(dv,) if amb else ())

    # the summary report prints the same three metrics (2 decimals, or nan when undefined) and one row per platform set;
    # every third table: to a stream that says it is a terminal (escape sequences are stripped before parsing), and
    # with the package's logger at DEBUG level, as both command-line front ends set it
    import io
    import logging

    class Terminal(io.StringIO):
        def isatty(self):
            return True

    as_terminal = (len(rows) + total) % 3 == 0
    buf = Terminal() if as_terminal else io.StringIO()
    cb_logger = logging.getLogger("codebasin")
    old_level, old_disable = cb_logger.level, logging.root.manager.disable
    try:
        if as_terminal:
            cells.add("summary-report:to-a-terminal")
            cells.add("logger-at-debug-level")
            logging.disable(logging.NOTSET)
            cb_logger.setLevel(logging.DEBUG)
            expect("divergence (package logger at DEBUG level)", None, watch(report.divergence, table), None if amb else dv, alt_ok=(dv,) if amb else ())
        report.summary(table, stream=buf)
        printed = {}
        for ln in re.sub(r"\x1b\[[0-9;]*m", "", buf.getvalue()).splitlines():
            mm = re.match(r"^(Code Divergence|Coverage \(%\)|Avg\. Coverage \(%\)|Total SLOC): (.*)$", ln)
            if mm:
                printed[mm.group(1)] = mm.group(2).strip()
        cells.add("summary-report")
        for name, exact in (("Code Divergence", None if amb else dv), ("Coverage (%)", exp), ("Avg. Coverage (%)", ref_avg_coverage(table))):
            got = printed.get(name)
            if name == "Code Divergence" and amb:
                continue
            ok = got == "nan" if exact is None else (got not in (None, "nan") and abs(float(got) - float(exact)) <= 0.005 + 1e-9)
            if exact is None:
                cells.add("summary-report:nan")
            if not ok:
                problems.append({"metric": "summary:" + name, "args": None, "expected": "nan" if exact is None else str(exact), "observed": got})
        if printed.get("Total SLOC") != str(total):
            problems.append({"metric": "summary:Total SLOC", "args": None, "expected": str(total), "observed": printed.get("Total SLOC")})
    except Exception as e:
        problems.append({"metric": "summary", "args": None, "expected": "a report", "observed": f"{type(e).__name__}: {e}"})
    finally:
        cb_logger.setLevel(old_level)
        logging.disable(old_disable)

    # metamorphic: rename, reorder, scale
    base = {"coverage": watch(report.coverage, table), "average_coverage": watch(report.average_coverage, table),
            "divergence": resd}

    def same(tag, t2):
        for name, fn in (("coverage", report.coverage), ("average_coverage", report.average_coverage),
                         ("divergence", report.divergence)):
            r2 = watch(fn, t2)
            r1 = base[name]
            if r1[0] != r2[0]:
                ok = False
            elif r1[0] == "exc":
                ok = True  # already reported above
            else:
                a, b = r1[1], r2[1]
                ok = (math.isnan(a) and math.isnan(b)) or (not math.isnan(a) and not math.isnan(b)
                                                           and abs(a - b) <= 1e-9 * max(1.0, abs(a)))
            if not ok:
                problems.append({"metric": f"{tag}:{name}", "args": None, "expected": repr(r1), "observed": repr(r2)})

    if ps:
        ren = {p: f"r{len(ps) - i}_{p[::-1]}" for i, p in enumerate(ps)}
        same("meta:rename", {frozenset(ren[p] for p in k): v for k, v in table.items()})
        cells.add("meta:rename")
        if len(ps) <= len(CASE_NAMES):
            ren = dict(zip(ps, CASE_NAMES))
            same("meta:rename-case-variants", {frozenset(ren[p] for p in k): v for k, v in table.items()})
            cells.add("meta:rename-case-variants")
    if len(table) > 1:
        items = list(table.items())
        rng.shuffle(items)
        same("meta:reorder", dict(items))
        same("meta:reorder", dict(reversed(list(table.items()))))
        cells.add("meta:reorder")
    if total > 0:
        for f in (2, 1000):
            same("meta:scale", {k: v * f for k, v in table.items()})
        cells.add("meta:scale")
    return problems, cells


def check_clustering(rows, report, workdir):
    """The clustering report on a table: printed distance matrix (labels in sorted order, every cell) and the position
    of the dashed 'Average' marker in the dendrogram figure (read from the live matplotlib figure) against the
    reference.  Returns (problems, cells); tables with an undefined distance are skipped (premise of the report)."""
    import io
    from cbimon import cli
    table = mk(rows)
    ps = sorted(ref_platforms(table))
    if len(ps) < 2 or any(ref_distance(table, p, q) is None for p in ps for q in ps):
        return None, set()
    import matplotlib
    matplotlib.use("Agg")
    from matplotlib import pyplot as plt
    buf = io.StringIO()
    problems = []
    cells = {"clustering:platforms>=4" if len(ps) >= 4 else "clustering:platforms<4"}
    try:
        plt.close("all")
        with warnings.catch_warnings():
            warnings.simplefilter("ignore")
            report.clustering(os.path.join(workdir, "dendrogram.png"), table, stream=buf)
        hdr, cellsm = cli.parse_distance_matrix(buf.getvalue())
        if hdr != ps:
            problems.append({"metric": "clustering-labels", "args": None, "expected": ps, "observed": hdr})
        else:
            for p in ps:
                for q in ps:
                    e = ref_distance(table, p, q)
                    v = cellsm.get((p, q))
                    try:
                        ok = v is not None and abs(float(v) - float(e)) <= 0.005 + 1e-9
                    except ValueError:
                        ok = False
                    if not ok:
                        problems.append({"metric": "clustering-matrix-cell", "args": [p, q], "expected": str(e), "observed": v})
        dv, amb = ref_divergence(table)
        marks = [ln for ax in plt.gcf().axes for ln in ax.lines if ln.get_linestyle() == "--"]
        if len(marks) != 1:
            problems.append({"metric": "clustering-average-marker", "args": None, "expected": "one dashed line", "observed": len(marks)})
        elif dv is not None:
            x = float(marks[0].get_xdata()[0])
            cells.add("clustering:average-marker")
            if abs(x - float(dv)) > 1e-9:
                problems.append({"metric": "clustering-average-marker", "args": None, "expected": str(dv), "observed": repr(x)})
        if len({str(ref_distance(table, p, q)) for i, p in enumerate(ps) for q in ps[i + 1:]}) >= 4:
            cells.add("clustering:>=4-distinct-distances")
    except Exception as e:
        problems.append({"metric": "clustering", "args": None, "expected": "report", "observed": f"{type(e).__name__}: {e}"})
    finally:
        plt.close("all")
    return problems[:4], cells


def check_filetree(rng, report, workdir):
    """Library use of report.FileTree: files inserted, the tree printed, a file that brings a NEW platform inserted, the
    tree printed again.  Every row of the second printout (platform letters, SLOC, coverage, average coverage) is
    recomputed from the per-file tables over the platforms present at that moment."""
    import io
    import shutil
    from cbimon import cli
    from cbimon.props import c06
    root = os.path.join(workdir, "ft")
    shutil.rmtree(root, ignore_errors=True)
    os.makedirs(os.path.join(root, "sub", "deep"))
    names = ["a.c", "sub/b.c", "sub/deep/c.c", "sub/d.h", "e.c"]
    plats = rng.sample(["cpu", "gpu", "fpga", "gpu[0]", "sm_*", "a?"], rng.randint(2, 4))
    late = rng.choice(["tpu", "Zeta", "x[1]"])
    tables = {}
    for i, n in enumerate(names):
        with open(os.path.join(root, n), "w") as f:
            f.write("int x;\n")
        pool = plats + ([late] if i == len(names) - 1 else [])
        t = {}
        for _ in range(rng.randint(1, 4)):
            key = frozenset(p for p in pool if rng.random() < 0.5)
            t[key] = t.get(key, 0) + rng.randint(1, 40)
        if i == len(names) - 1:
            t[frozenset([late])] = t.get(frozenset([late]), 0) + 3
        tables[n] = t
    tree = report.FileTree(root)
    problems = []
    try:
        import collections
        for n in names[:-1]:
            tree.insert(os.path.join(root, n), collections.defaultdict(int, tables[n]))
        tree.write_to(io.StringIO())
        tree.insert(os.path.join(root, names[-1]), collections.defaultdict(int, tables[names[-1]]))
        buf = io.StringIO()
        tree.write_to(buf)
        legend, rows = cli.parse_tree(buf.getvalue())
        got = c06.tree_rows_by_path(rows)
        fsm = {os.path.join(root, n): (False, tables[n], {}, []) for n in names}
        allp = set().union(*[set(k) for t in tables.values() for k in t])
        want, order = c06.expected_tree(root, fsm, allp)
        if set(got) != set(want):
            problems.append({"metric": "filetree-rows", "args": None, "expected": sorted(want), "observed": sorted(got)})
        else:
            for path, (letters, total, cov, avg, is_link) in want.items():
                r = got[path]
                if r["platforms"] != letters or r["sloc"] != str(total) or not c06.close2(r["cov"], cov) or not c06.close2(r["avg"], avg):
                    problems.append({"metric": "filetree-row-after-a-platform-was-added", "args": path,
                                     "expected": [letters, total, str(cov), str(avg)], "observed": [r["platforms"], r["sloc"], r["cov"], r["avg"]]})
    except Exception as e:
        problems.append({"metric": "filetree", "args": None, "expected": "two printouts", "observed": f"{type(e).__name__}: {e}"})
    return problems[:4], {"filetree:platform-added-between-printouts"}, {n: {",".join(sorted(k)): v for k, v in t.items()} for n, t in tables.items()}


UPDATE_SEQUENCES = [
    [(("cpu", "gpu"), 10), ((), 2), (("cpu",), 5), (("gpu",), 3), (("cpu", "gpu"), -10), (("cpu",), -5)],
    [(("a",), 3), (("b",), 3), (("a", "b"), 6), (("c",), 1), (("a", "c"), 2), (("b",), -3), (("c",), -1), (("a", "c"), -2)],
    [((), 4), (("x", "y", "z"), 1), (("x",), 2), (("y",), 2), (("z",), 2), (("x", "y", "z"), 7), (("x",), -2)],
]


def stateful_updates(report, watch):
    """One mapping object (a defaultdict, as finder.get_setmap builds it) updated IN PLACE between calls: every call of
    every metric must describe the mapping as it is now, not as it was when the function last saw this object.
    Returns list of (problems, cells, rows-after-the-step)."""
    import collections
    import io
    from cbimon import cli
    out = []
    for seq in UPDATE_SEQUENCES:
        live = collections.defaultdict(int)
        for step, (key, delta) in enumerate(seq):
            k = frozenset(key)
            live[k] += delta
            if live[k] == 0 and delta < 0:
                del live[k]
            table = dict(live)          # value copy for the reference
            rows = sorted((tuple(sorted(kk)), v) for kk, v in table.items())
            problems = []
            ps = sorted(ref_platforms(table))

            def expect(metric, args, res, exp):
                st, val = res
                if st == "exc" or not close(val, exp):
                    problems.append({"metric": metric + " (same mapping object, updated in place)", "args": args, "step": step,
                                     "expected": "NaN" if exp is None else str(exp), "observed": val if st == "exc" else repr(val)})
            for rep in range(2):
                dv, amb = ref_divergence(table)
                if not amb:
                    expect("divergence", None, watch(report.divergence, live), dv)
                expect("coverage", None, watch(report.coverage, live), ref_coverage(table))
                expect("average_coverage", None, watch(report.average_coverage, live), ref_avg_coverage(table))
                for a, b in itertools.combinations(ps, 2):
                    expect("distance", [a, b], watch(report.distance, live, a, b), ref_distance(table, a, b))
                buf = io.StringIO()
                try:
                    report.summary(live, stream=buf)
                    sm = cli.parse_summary(buf.getvalue())
                    if dv is not None and not amb and sm["metrics"].get("Code Divergence") not in (f"{float(dv):.2f}",):
                        # two-decimal print of the exact value (ties are C14's subject: compare with tolerance)
                        if abs(float(sm["metrics"].get("Code Divergence", "nan")) - float(dv)) > 0.005 + 1e-9:
                            problems.append({"metric": "summary: Code Divergence (same mapping object, updated in place)", "args": None, "step": step,
                                             "expected": f"{float(dv):.2f}", "observed": sm["metrics"].get("Code Divergence")})
                    if dv is None and sm["metrics"].get("Code Divergence") != "nan":
                        problems.append({"metric": "summary: Code Divergence (same mapping object, updated in place)", "args": None, "step": step,
                                         "expected": "nan", "observed": sm["metrics"].get("Code Divergence")})
                    if sm["metrics"].get("Total SLOC") != str(sum(table.values())):
                        problems.append({"metric": "summary: Total SLOC (same mapping object, updated in place)", "args": None, "step": step,
                                         "expected": sum(table.values()), "observed": sm["metrics"].get("Total SLOC")})
                except Exception as e:
                    problems.append({"metric": "summary", "args": None, "step": step, "expected": "report", "observed": f"{type(e).__name__}: {e}"})
            out.append((problems[:4], {"mapping-updated-in-place-between-calls"}, rows))
    return out


UNDEFINED_DISTANCE_TABLES = [
    [(("cpu",), 3), (("cpu", "gpu"), 2), (("dsp",), 0), (("fpga",), 0), ((), 1)],
    [(("a",), 5), (("b",), 0), (("c",), 0), (("b", "c"), 0)],
    [(("a", "b"), 4), (("c", "d"), 0), (("a",), 1)],
]


def undefined_distance_clustering(report, workdir):
    """Tables in which two platforms own no line at all: their distance is 0/0.  The clustering report may refuse such a
    table, or print `nan` for the pair -- it must not print a number.  Returns list of (problems, cells, rows)."""
    import io
    from cbimon import cli
    import matplotlib
    matplotlib.use("Agg")
    from matplotlib import pyplot as plt
    out = []
    for rows in UNDEFINED_DISTANCE_TABLES:
        table = mk(rows)
        ps = sorted(ref_platforms(table))
        undefined = [(p, q) for p in ps for q in ps if ref_distance(table, p, q) is None]
        problems = []
        cells = {"clustering:undefined-distance"}
        buf = io.StringIO()
        try:
            plt.close("all")
            with warnings.catch_warnings():
                warnings.simplefilter("ignore")
                report.clustering(os.path.join(workdir, "dendrogram-u.png"), table, stream=buf)
            hdr, cellsm = cli.parse_distance_matrix(buf.getvalue())
            cells.add("clustering:undefined-distance:report-produced")
            for p, q in undefined:
                v = cellsm.get((p, q))
                if v is not None and v.lower() != "nan":
                    problems.append({"metric": "clustering-matrix-cell for an undefined distance", "args": [p, q], "expected": "nan (or no report)", "observed": v})
        except Exception as e:
            cells.add("clustering:undefined-distance:report-refused")
        finally:
            plt.close("all")
        out.append((problems[:3], cells, rows))
    return out


def classify(problem, rows):
    """Mechanism key of a violation (known-finding predicates; see known_findings.json)."""
    table = mk(rows)
    total = sum(table.values())
    ps = ref_platforms(table)
    m, obs = problem["metric"], problem["observed"]
    if "ZeroDivisionError" in obs and (m in ("distance", "divergence") or m.startswith("meta:")):
        # only when some pair really has an empty union
        if any(ref_distance(table, p, q) is None for p in ps for q in ps):
            return "distance-zero-division-on-empty-union"
    if m == "coverage" and not ps and total > 0 and obs == "0.0" and problem["args"] is None:
        return "coverage-0-instead-of-nan-without-platforms"
    if m == "divergence" and total == 0 and len(ps) >= 2 and obs == "0.0":
        return "divergence-0-instead-of-nan-without-lines"
    return None


def run_shard(ctx):
    from codebasin import report
    acc = ctx.acc
    watch = Watch()
    rng = ctx.rng(f"meta{ctx.shard}")

    def do(rows, cls):
        problems, cells = check_table(rows, report, watch, rng)
        cells.add("class:" + cls)
        table = mk(rows)
        nontriv = sorted(map(list, rows)) if (ref_platforms(table) and sum(table.values()) > 0) else None
        if problems:
            seen = set()
            for p in problems:
                mech = classify(p, rows)
                if (mech, p["metric"]) in seen:
                    continue
                seen.add((mech, p["metric"]))
                acc.violated({"input": {"rows": rows}, "witness": {"rows": rows, **p}}, mechanism=mech,
                             cells=cells, nontrivial=nontriv, cls=cls)
        else:
            acc.held(cells=cells, nontrivial=nontriv, cls=cls,
                     sample={"rows": rows, "coverage": str(ref_coverage(table)),
                             "avg": str(ref_avg_coverage(table)), "divergence": str(ref_divergence(table)[0])})

    for rows in enum_tables(ctx.tier, ctx.shard, ctx.nshards):
        do(rows, "enum")
    n_clu = 0
    work = ctx.subdir("clu")
    for rows in random_tables(ctx):
        do(rows, "random")
        # the clustering report (matrix + figure) on every table that defines all its distances, up to a budget
        if n_clu < bounds(ctx.tier)["clustering_per_shard"]:
            problems, cells = check_clustering(rows, report, work)
            if problems is None:
                continue
            n_clu += 1
            cells.add("class:clustering")
            acc.hook("report.clustering")
            if problems:
                acc.violated({"input": {"rows": rows}, "witness": {"rows": rows, **problems[0], "all": problems}}, cells=cells, cls="clustering",
                             nontrivial=sorted(map(list, rows)))
            else:
                acc.held(cells=cells, cls="clustering", nontrivial=sorted(map(list, rows)))
    frng = ctx.rng(f"filetree{ctx.shard}")
    for _ in range(6 if ctx.quick else 60):
        problems, cells, tables = check_filetree(frng, report, work)
        acc.hook("report.FileTree")
        if problems:
            acc.violated({"input": {"tables": tables}, "witness": {"tables": tables, **problems[0], "all": problems}}, cells=cells, cls="filetree")
        else:
            acc.held(cells=cells, cls="filetree", nontrivial=tables)
    if ctx.shard == 2 % ctx.nshards:
        for problems, cells, rows in stateful_updates(report, watch):
            if problems:
                acc.violated({"input": {"rows": rows}, "witness": {"rows": rows, **problems[0], "all": problems}}, cells=cells, cls="stateful")
            else:
                acc.held(cells=cells, cls="stateful", nontrivial=("stateful", str(rows)))
    if ctx.shard == 3 % ctx.nshards:
        for problems, cells, rows in undefined_distance_clustering(report, work):
            acc.hook("report.clustering")
            if problems:
                acc.violated({"input": {"rows": rows}, "witness": {"rows": rows, **problems[0], "all": problems}}, cells=cells, cls="clustering")
            else:
                acc.held(cells=cells, cls="clustering", nontrivial=("undefined", str(rows)))
    acc.hook("report-function-calls", watch.calls)


def replay(record, ctx):
    from codebasin import report
    rows = [(tuple(k), v) for k, v in record["input"]["rows"]]
    problems, _ = check_table(rows, report, Watch(), ctx.rng("replay"))
    return {"verdict": "violated" if problems else "held", "problems": problems}
