"""
C04 -- #include resolution and attribution across files follow compiler rules.

Monitored execution: finder.find on generated header forests; observed:
per-line attribution of every file, H-platform find_include_file trace, the
final macro table.  Oracle: gcc -E with identical flags run in the source
file's directory: markers (which copy of a header was read, which lines are
live), -H (resolved headers), -dM (final macros).
"""

import itertools
import os
import re
import shutil
import traceback

from cbimon import cbi, hooks
from cbimon.gen import forest
from cbimon.oracles import gcc

PROP = "C04"
RULE = ("E: header x.h present in every non-empty subset of {includer's dir, d1, d2}, included in quote and/or angle form "
        "from the source file and from a header in another directory, in both orders, crossed with every order/kind "
        "(-I / -isystem) of d1,d2. R: forests with <=6 directories, <=4 header names each present in 1..3 directories, "
        "quote/angle/computed includes nested by name order, guarded / #pragma once / unguarded / toggle headers, "
        "macros identifying the copy read, -include options, 1..4 TUs. Every line is a marker or a directive. "
        "Excluded: gcc reports any diagnostic (missing header, redefinition). Non-trivial: some header name exists in "
        ">=2 directories or some header is included twice; distinct by (files, commands).")
ASSUMPTIONS = ["gcc 12.2 search rules: quote = includer's dir, then -I dirs in order, then -isystem dirs in order; angle = "
               "the same without the includer's dir", "gcc is run in the source file's directory (-include resolves there too)",
               "directive lines follow the C01 rule per file; a header's top-level group is live iff its first marker is"]
REQUIRED_HOOKS = ["H-platform", "H-assoc"]


def bounds(tier):
    return {"random": 500 if tier == "quick" else 20000, "enum": True}


def exhaustive(tier):
    return True


def required_cells(tier):
    return ["same-name-in-2+-dirs", "quote-then-angle-same-name", "angle-then-quote-same-name", "isystem-before-I",
            "beside-includer-and-on-path", "computed-quote", "computed-angle", "reinclude:guard", "reinclude:once",
            "reinclude:plain", "forced-include", "forced-include-macro-tested", "same-name-from-two-dirs",
            "class:E", "class:R", "resolved-set-compared", "table-compared", "header-dir-outside-root",
            "outside-header-read", "include-depth>=40", "include-depth>=70", "headers-differing-in-case",
            "guard-undefined-then-reincluded", "directory-named-like-header-on-search-path", "include-spelled-with-dotdot",
            "dotdot-include-resolved-through-search-directory", "include-spelled-with-dotdot-after-directory-link", "directory-named-by-I-and-isystem", "unguarded-header-forced-twice", "same-file-compiled-twice-with-search-order-reversed", "header-name-with-blank:angle", "header-name-with-blank:quote", "translation-unit-outside-root-includes-member-headers", "same-named-file-in-root-off-every-search-path", "forced-include-without-recognised-extension", "quote-include-inside-header-opened-through-file-link", "directory-named-twice-by-I", "environment:CPATH-names-header-directories",
            "headers-with-unknown-or-no-extension", "header-names-outside-ascii"]


def enum_cases():
    """The memoisation / search-order space (see RULE)."""
    dirs = {"s": "src", "1": "inc", "2": "inc2"}
    subsets = [c for r in (1, 2, 3) for c in itertools.combinations("s12", r)]
    searches = []
    for order in (("1", "2"), ("2", "1")):
        for k1 in ("I", "isystem"):
            for k2 in ("I", "isystem"):
                searches.append([[k1, dirs[order[0]]], [k2, dirs[order[1]]]])
    searches += [[["I", "inc"]], [["isystem", "inc2"]], []]
    for S in subsets:
        for f1, f2 in itertools.product("qa", "qa"):
            for layout in ("direct", "x-then-y", "y-then-x", "sub-then-main"):
                for search in searches:
                    files = {}
                    for k in S:
                        files[f"{dirs[k]}/x.h"] = [["code"], ["define", "D_" + forest.fid(f"{dirs[k]}/x.h"), None], ["code"]]
                    if layout == "direct":
                        files["src/t.c"] = [["code"], ["include", f1, "x.h"], ["code"], ["include", f2, "x.h"], ["code"]]
                    elif layout in ("x-then-y", "y-then-x"):
                        files["inc/y.h"] = [["code"], ["include", f2, "x.h"], ["code"]]
                        a, b = ["include", f1, "x.h"], ["include", "a", "y.h"]
                        files["src/t.c"] = [["code"]] + ([a, ["code"], b] if layout == "x-then-y" else [b, ["code"], a]) + [["code"]]
                    else:
                        files["src/sub/u.h"] = [["code"], ["include", f1, "x.h"], ["code"]]
                        files["src/sub/x.h"] = [["code"], ["define", "D_src_sub_x_h", None]]
                        files["src/t.c"] = [["code"], ["include", "q", "sub/u.h"], ["code"], ["include", f2, "x.h"], ["code"]]
                    tail = []
                    for k in list(S) + ["sub"]:
                        nm = "D_" + forest.fid(f"{dirs.get(k, 'src/sub')}/x.h")
                        tail.append(["chain", [["ifdef", nm, [["code"]]], ["else", None, [["code"]]]]])
                    files["src/t.c"] = files["src/t.c"] + tail
                    yield {"files": files, "tus": [{"platform": "p0", "file": "src/t.c", "defines": [], "search": search,
                                                    "includes": []}]}


def cells_of(case, per_tu, events, base):
    cells = set()
    names = {}
    for rel in case["files"]:
        if rel.endswith(".h"):
            names.setdefault(os.path.basename(rel), []).append(rel)
    if any(len(v) >= 2 for v in names.values()):
        cells.add("same-name-in-2+-dirs")
    for tu in case["tus"]:
        kinds = [k for k, _ in tu["search"]]
        if "isystem" in kinds and "I" in kinds and kinds.index("isystem") < len(kinds) - 1 - kinds[::-1].index("I"):
            cells.add("isystem-before-I")
        if tu["includes"]:
            cells.add("forced-include")
        if any(sp.endswith(".def") for sp in tu["includes"]):
            cells.add("forced-include-without-recognised-extension")
        sys_dirs = {d for k, d in tu["search"] if k == "isystem"}
        if any(k == "I" and d in sys_dirs for k, d in tu["search"]):
            cells.add("directory-named-by-I-and-isystem")
        plain = [d for k, d in tu["search"] if k == "I"]
        if len(plain) != len(set(plain)):
            cells.add("directory-named-twice-by-I")
    # from the CBI trace: sequences of look-ups per platform object
    by_plat = {}
    for e in events:
        if e[0] == "inc":
            by_plat.setdefault(e[1], []).append(e)
    for seq in by_plat.values():
        seen = {}
        for _, _, spelling, this_path, is_sys, res in seq:
            prev = seen.get(spelling)
            if prev:
                for (psys, pdir) in prev:
                    if psys != is_sys:
                        cells.add("angle-then-quote-same-name" if psys else "quote-then-angle-same-name")
                    if pdir != this_path:
                        cells.add("same-name-from-two-dirs")
            seen.setdefault(spelling, []).append((is_sys, this_path))
            if res and not is_sys and os.path.dirname(res) == this_path:
                # found beside the includer: also on the path?
                for e2 in by_plat.values():
                    pass
    return cells


def static_cells(case, rendered):
    cells = set()
    for rel, r in rendered.items():
        for it in r.items:
            if it["kind"] == "inc" and it["form"] == "m":
                pass
    for rel, body in case["files"].items():
        txt = str(body)
        if "'HDR', '\"" in txt:
            cells.add("computed-quote")
        if "'HDR', '<" in txt:
            cells.add("computed-angle")
    return cells


def check_case(ctx, case, base, cls, extra_cells=()):
    acc = ctx.acc
    shutil.rmtree(base, ignore_errors=True)
    root, rendered = forest.materialize(case, base)
    root_real = os.path.realpath(root)
    gcc_extra = []
    if case.get("builtin_headers"):
        # a stand-in for the compiler's own built-in header directory: searched by gcc (last), named on no command line
        bdir = os.path.join(os.path.realpath(base), "compiler-builtin")
        os.makedirs(bdir, exist_ok=True)
        for nm in case["builtin_headers"]:
            with open(os.path.join(bdir, nm), "w") as f:
                f.write("#define BUILTIN_%s 1\n" % nm.split(".")[0].upper())
        gcc_extra = ["-idirafter", bdir]
    ok, per_tu, expected = forest.gcc_expect(case, base, rendered, extra=gcc_extra)
    if not ok:
        acc.excluded("gcc-diagnostic", cls=cls)
        return "excluded"
    cells = set(extra_cells) | static_cells(case, rendered)
    cells.add("class:" + cls)
    conf = forest.cbi_configuration(case, base)
    problems = []
    # the environment of the analysis is not part of any compile command: CPATH & co. naming a directory with same-named
    # headers must not change what the command's own options select (set only around the analysis, not for the oracle)
    env_dirs = os.pathsep.join(os.path.join(root_real, d_) for d_ in ("sys", "inc2", "inc"))
    env_set = len(case["files"]) % 3 == 0
    for var in ("CPATH", "C_INCLUDE_PATH", "CPLUS_INCLUDE_PATH"):
        if env_set:
            os.environ[var] = env_dirs
    if env_set:
        cells.add("environment:CPATH-names-header-directories")
    try:
        with hooks.monitor() as ev:
            conf = forest.cbi_configuration(case, base)
            state, _ = cbi.run_find(root, conf)
    except Exception as e:
        tb = traceback.extract_tb(e.__traceback__)
        inner = [f"{os.path.basename(fr.filename)}:{fr.lineno}:{fr.name}" for fr in tb if "/codebasin/" in fr.filename][-1:]
        problems.append({"kind": "exception", "observed": f"{type(e).__name__}: {e}", "at": inner})
        ev = None
    for var in ("CPATH", "C_INCLUDE_PATH", "CPLUS_INCLUDE_PATH"):
        os.environ.pop(var, None)
    nontriv = None
    if ev is not None:
        for k, v in ev.counts.items():
            acc.hook(k, v)
        cells |= cells_of(case, per_tu, ev.events, base)
        observed = forest.observed_lines(state, case, base, list(conf))
        d = forest.diff(expected, observed)
        if d:
            problems.append({"kind": "attribution", "diff": d[:8]})
        # re-inclusion cells + resolved-file sets per TU
        plat_objs = ev.platforms
        order = forest.tu_order(case)
        for i, ti in enumerate(order):
            tu, g = case["tus"][ti], per_tu[ti]
            gset = {os.path.realpath(os.path.join(os.path.dirname(forest.abspath(*forest.paths(base), tu["file"])), p))
                    for _, p in g["includes"]}
            # headers the compiler took from its own built-in directories are not part of the case
            gset = {p for p in gset if p.startswith(os.path.realpath(base) + os.sep) and not p.startswith(os.path.join(os.path.realpath(base), "compiler-builtin") + os.sep)}
            if any(os.path.basename(p) == "iso646.h" for _, p in g["includes"]) and "iso646.h" in case["files"]:
                cells.add("same-named-file-in-root-off-every-search-path")
            for sp in tu["includes"]:
                # gcc -H does not list files given with -include; the generator only forces inc/pre.h and inc/forced.def
                gset.add(os.path.realpath(forest.abspath(*forest.paths(base), "inc/forced.def" if sp.endswith("forced.def") else "inc/pre.h")))
            if any(p.startswith(os.path.realpath(forest.paths(base)[1]) + os.sep) for p in gset):
                cells.add("outside-header-read")     # its D_ macro is compared in the final macro table below
            if i < len(plat_objs):
                cset = {os.path.realpath(e[5]) for e in ev.events if e[0] == "inc" and e[1] == plat_objs[i]._cbimon_index and e[5]}
                cells.add("resolved-set-compared")
                if gset != cset:
                    problems.append({"kind": "resolved-header-set", "tu": tu["file"], "gcc_only": sorted(gset - cset),
                                     "cbi_only": sorted(cset - gset)})
                counts = {}
                for e in ev.events:
                    if e[0] == "inc" and e[1] == plat_objs[i]._cbimon_index and e[5]:
                        counts[e[5]] = counts.get(e[5], 0) + 1
                for p, n in counts.items():
                    if n >= 2:
                        rel = os.path.relpath(os.path.realpath(p), root_real)
                        body = str(case["files"].get(rel, ""))
                        cells.add("reinclude:" + ("once" if "'once'" in body else "guard" if "G_" in body else "plain"))
                        nontriv = True
                # beside-includer-and-on-path
                for e in ev.events:
                    if e[0] == "inc" and e[5] and not e[4] and os.path.dirname(e[5]) == e[3]:
                        for k, dd in tu["search"]:
                            if os.path.exists(os.path.join(forest.abspath(*forest.paths(base), dd), e[2])):
                                cells.add("beside-includer-and-on-path")
                # final macro table
                path, defines, search, incs = forest.tu_args(tu, *forest.paths(base))
                okm, table = gcc.final_macros(path, defines=defines, search=search, includes=incs, cwd=os.path.dirname(path))
                if okm:
                    pref = ("D_", "G_", "FROM_PRE", "HDR")
                    gt = {n for n in table if n.startswith(pref) or n in ("A", "B", "C", "T")}
                    ct = {n for n in plat_objs[i]._definitions if n.startswith(pref) or n in ("A", "B", "C", "T")}
                    cells.add("table-compared")
                    if gt != ct:
                        problems.append({"kind": "final-macro-table", "tu": tu["file"], "gcc_only": sorted(gt - ct), "cbi_only": sorted(ct - gt)})
                    if tu["includes"] and "FROM_PRE" in gt:
                        cells.add("forced-include-macro-tested")
    if any(tu["file"].startswith("@out/") for tu in case["tus"]):
        cells.add("translation-unit-outside-root-includes-member-headers")
    if case.get("forced_twice"):
        cells.add("unguarded-header-forced-twice")
    if case.get("reordered_twin"):
        cells.add("same-file-compiled-twice-with-search-order-reversed")
    if any(r.startswith("@out/") for r in case["files"]):
        cells.add("header-dir-outside-root")
    if any(r.endswith("/CaseP.h") for r in case["files"]):
        cells.add("headers-differing-in-case")
    if any(r.endswith("/tab.h") for r in case["files"]):
        cells.add("guard-undefined-then-reincluded")
    if any(r.endswith("/Dense") for r in case["files"]) and ev is not None and any(e[0] == "inc" and e[2] == "Dense" and e[5] for e in ev.events):
        cells.add("headers-with-unknown-or-no-extension")
    if ev is not None and any(e[0] == "inc" and "\u00e4" in e[2] and e[5] for e in ev.events):
        cells.add("header-names-outside-ascii")
    if ev is not None and any(e[0] == "inc" and " " in e[2] and e[4] and e[5] for e in ev.events):
        cells.add("header-name-with-blank:angle")
    if ev is not None and any(e[0] == "inc" and " " in e[2] and not e[4] and e[5] for e in ev.events):
        cells.add("header-name-with-blank:quote")
    if ev is not None:
        for e in ev.events:
            if e[0] == "inc" and e[2].startswith("lk_side") and e[5]:
                cells.add("quote-include-inside-header-opened-through-file-link")
            if e[0] == "inc" and e[2].startswith("up_inc/../") and e[5]:
                cells.add("include-spelled-with-dotdot-after-directory-link")
            if e[0] == "inc" and e[2].startswith("../") and e[5]:
                cells.add("include-spelled-with-dotdot")
                if os.path.normpath(os.path.join(e[3], e[2])) != os.path.normpath(e[5]):
                    cells.add("dotdot-include-resolved-through-search-directory")
    for dd in case.get("dirs", []):
        # the decoy matters when some translation unit searches its directory before the one that holds the file
        if any(os.path.dirname(dd) in [x[1] for x in tu["search"]] or os.path.dirname(dd) == os.path.dirname(tu["file"]) for tu in case["tus"]):
            cells.add("directory-named-like-header-on-search-path")
    for g in per_tu:
        # gcc -H prints one dot per nesting level
        depth = max([lvl for lvl, _ in g["includes"]] or [0])
        for n in (40, 70):
            if depth >= n:
                cells.add(f"include-depth>={n}")
    if "same-name-in-2+-dirs" in cells:
        nontriv = True
    nt = {"files": {k: str(v) for k, v in case["files"].items()}, "tus": case["tus"]} if nontriv else None
    if problems:
        acc.violated({"input": case, "witness": {"problems": problems[:5], "commands": case["tus"],
                                                  "files": {rel: rendered[rel].text for rel in rendered
                                                            if not re.search(r"/dp([4-9]|\d\d+)\.h$", rel)}}},
                     mechanism=classify(case, problems, base, ev), cells=cells, nontrivial=nt, cls=cls)
        return "violated"
    acc.held(cells=cells, nontrivial=nt, cls=cls,
             sample={"files": {rel: rendered[rel].text for rel in rendered}, "commands": case["tus"],
                     "expected": {p: {f: sorted(l) for f, l in v.items()} for p, v in expected.items()}})
    return "held"


def classify(case, problems, base, ev):
    """Differential classification: if CBI's attribution equals what gcc computes when every search directory is
    passed as -I in command-line order (no -I-before--isystem rule), and some -isystem precedes an -I, the
    violation is the known search-order defect."""
    if not problems:
        return None
    try:
        root, rendered = forest.materialize(case, base)
        ok, per_tu, _ = forest.gcc_expect(case, base, rendered, extra=["-Wsystem-headers"])
        if not ok and any("redefined" in g["stderr"] for g in per_tu):
            return "macro-redefinition-in-system-header-ignored"
    except Exception:
        pass
    has_order = False
    alt = {"files": case["files"], "tus": []}
    for tu in case["tus"]:
        kinds = [k for k, _ in tu["search"]]
        if "isystem" in kinds and "I" in kinds[kinds.index("isystem"):]:
            has_order = True
        alt["tus"].append(dict(tu, search=[["I", d] for _, d in tu["search"]]))
    if not has_order:
        return None
    # (a) semantically identical command with all -I first: if CBI then agrees with gcc, only the order matters
    try:
        canon = {"files": case["files"], "tus": [dict(tu, search=[x for x in tu["search"] if x[0] == "I"] +
                                                             [x for x in tu["search"] if x[0] != "I"]) for tu in case["tus"]]}
        root, rendered = forest.materialize(canon, base)
        ok, per_tu, expected = forest.gcc_expect(canon, base, rendered)
        if ok:
            with hooks.monitor(evals=False, assoc=False, logs=False):
                state, _ = cbi.run_find(root, forest.cbi_configuration(canon, base))
            if not forest.diff(expected, forest.observed_lines(state, canon, base, [])):
                return "isystem-dirs-searched-in-command-line-order"
    except Exception:
        pass
    # (b) gcc with every directory as -I in command-line order reproduces CBI's answer
    if ev is None or problems[0]["kind"] == "exception":
        return None
    try:
        root, rendered = forest.materialize(alt, base)
        ok, per_tu, expected = forest.gcc_expect(alt, base, rendered)
        if not ok:
            return None
        with hooks.monitor(evals=False, assoc=False, logs=False):
            state, _ = cbi.run_find(root, forest.cbi_configuration(case, base))
        observed = forest.observed_lines(state, case, base, [])
        if not forest.diff(expected, observed):
            return "isystem-dirs-searched-in-command-line-order"
    except Exception:
        return None
    return None


def run_shard(ctx):
    b = bounds(ctx.tier)
    base = os.path.join(ctx.scratch, "c04")
    idx = 0
    for case in enum_cases():
        idx += 1
        if ctx.mine(idx):
            check_case(ctx, case, base, "E")
    rng = ctx.rng("random")
    for i in range(b["random"]):
        # 40%: one header directory lies outside the analysis root (its headers are read for their macros);
        # one case in 16: an include chain 20..100 levels deep (gcc allows 200; the code's recursion meets the interpreter's limit near 120)
        case = forest.gen(rng, outside=rng.random() < 0.4, deep=[20, 40, 70, 100][(i // 16) % 4] if i % 16 == 5 else 0,
                          casepair=(i % 8 == 3), reguard=(i % 8 == 6), dirdecoy=(i % 4 == 1), updir=(i % 4 == 2),
                          findable=(i % 4 != 0), oddnames=(i % 8 == 7), dirlinks=(i % 8 == 4), dupdirs=(i % 8 in (0, 5)), links=("side" if i % 8 == 2 else False), builtin_decoy=(i % 8 == 1), outside_tu=(i % 8 == 3))      # (3 in 4: every header name is on every command's path; else ~60% are rejected by gcc)
        if i % 8 == 6 and "inc/pre.h" in case["files"]:
            # the forced header is named twice on every command that forces it; it has no guard and changes the macro
            # state on its second reading -- which a compiler performs
            case["files"]["inc/pre.h"] = [["code"], ["define", "FROM_PRE", "1"],
                                          ["chain", [["ifdef", "PRE_SEEN", [["code"], ["define", "PRE_TWICE", None]]], ["else", None, [["define", "PRE_SEEN", None]]]]]]
            for tu in case["tus"]:
                if tu["includes"]:
                    tu["includes"] = [tu["includes"][0], tu["includes"][0]]
                    case["forced_twice"] = True
                case["files"][tu["file"]] = case["files"][tu["file"]] + [["chain", [["ifdef", "PRE_TWICE", [["code"]]], ["else", None, [["code"]]]]]]
        if i % 8 == 5 and len(case["tus"]) >= 1:
            # the first command once more for the same platform, with its search directories in the opposite order (and
            # its forced includes too): two different commands although they hold the same options
            tu0 = case["tus"][0]
            if len(tu0["search"]) >= 2:
                case["tus"].append(dict(tu0, search=list(reversed(tu0["search"])), includes=list(reversed(tu0["includes"]))))
                case["reordered_twin"] = True
        if ctx.mine(i):
            check_case(ctx, case, base, "R")
    shutil.rmtree(base, ignore_errors=True)


def post_check(m, tier):
    r = m["classes"].get("R", 0)
    return []


def replay(record, ctx):
    res = check_case(ctx, record["input"], os.path.join(ctx.scratch, "c04"), "replay")
    return {"verdict": res, "violations": ctx.acc.violations}
