"""
C10 -- excluding files removes their lines from the counts and changes nothing else.

Monitored execution: finder.find + get_setmap on forests analysed without and
with exclude patterns (every subset of files for small cases), out-of-root
headers, and the three CLIs with -x versus [codebase] exclude (sample).
Oracles: metamorphic (attribution unchanged, setmap = projection), gcc for the
absolute attribution, git check-ignore for which files a pattern list matches.
"""

import itertools
import json
import os
import shutil

from cbimon import cbi, cli
from cbimon.gen import forest
from cbimon.oracles.gitignore import GitIgnore

PROP = "C10"
RULE = ("forest code bases (C04/C08 generator, all -I, optional header directory outside the root) whose headers define "
        "macros that other files test; exclude lists = exact anchored paths for every subset of files (<=5 files: all "
        "subsets, else 6 random subsets) plus directory and *.ext patterns. Each case is analysed with and without the "
        "exclusion. Non-trivial: the excluded set contains a file that defines a macro which changes the attribution of "
        "a remaining file (measured: removing that file's #defines changes gcc's output). Distinct by (files, commands, patterns).")
ASSUMPTIONS = ["git check-ignore decides which files a pattern list matches", "gcc per command is the absolute oracle",
               "members are regular non-symlink files under the root with a source extension"]
REQUIRED_HOOKS = ["find", "get_setmap"]


def bounds(tier):
    return {"cases": 110 if tier == "quick" else 3500, "cli_cases": 4 if tier == "quick" else 50}


def required_cells(tier):
    return ["excluded-file-defines-macro-others-test", "excluded-compiled-file", "excluded-header", "out-of-root-header",
            "out-of-root-header-defines-macro", "pattern:path", "pattern:dir", "pattern:ext", "pattern:anchored-dir", "pattern:case-variant", "all-files-excluded",
            "cli:-x-vs-toml", "cli:-x-plus-toml", "cli:tree", "cli:cov", "compiled-file-outside-root",
            "configuration-via-load_database", "code-base-of-two-directories", "outside-header-included-through-link-in-root", "code-base-of-two-directories:name-prefix-related",
            "cli:directory-only-wildcard-pattern", "cli:tree-front-end-twice-in-one-process", "hard-linked-names:one-excluded", "hard-linked-names:both-members",
            "directive-looking-line-inside-block-comment-in-headers", "directive-looking-line-inside-block-comment-in-outside-header",
            "cli:pattern-holding-a-comma", "cli:pattern-repeated-around-a-negation", "cli:directory-only-wildcard-pattern-beside-a-file-of-that-name"]


def attribution(state, case, base):
    """{rel: {line: frozenset(platforms)}} for every file of the case that was parsed."""
    root, out = forest.paths(base)
    res = {}
    for rel in case["files"]:
        p = os.path.realpath(forest.abspath(root, out, rel))
        if state.get_tree(p) is None:
            continue
        lines, dup = cbi.per_line(state, p)
        res[rel] = lines
    return res


def project_setmap(attr, members):
    sm = {}
    for rel in members:
        for ln, ps in attr.get(rel, {}).items():
            sm[ps] = sm.get(ps, 0) + 1
    return sm


def setmap_of(state, cb):
    return {frozenset(k): v for k, v in state.get_setmap(cb).items() if v}


def pattern_sets(rng, case, quick):
    rels = [r for r in case["files"] if not r.startswith("@out/")]
    out = []
    if len(rels) <= 5:
        for r in range(1, len(rels) + 1):
            for sub in itertools.combinations(rels, r):
                out.append((["/" + x for x in sub], "pattern:path"))
    else:
        for _ in range(6 if quick else 10):
            sub = rng.sample(rels, rng.randint(1, len(rels)))
            out.append((["/" + x for x in sub], "pattern:path"))
    dirs = sorted({os.path.dirname(r) for r in rels})
    out.append(([rng.choice(dirs) + "/"], "pattern:dir"))
    out.append((["/sub/"], "pattern:anchored-dir"))
    out.append((["sub/"], "pattern:dir"))
    out.append((["*.h"], "pattern:ext"))
    out.append((["*.c", "!/src/t0.c"], "pattern:ext"))
    out.append((["*"], "pattern:ext"))
    # patterns that differ from existing names only in letter case match nothing (gitignore is case-sensitive)
    out.append((["*.H", "*.C", "*.CPP"], "pattern:case-variant"))
    out.append((["/" + x.upper() for x in rng.sample(rels, min(2, len(rels)))] + ["SRC/", "/Inc/"], "pattern:case-variant"))
    return out


def check_case(ctx, git, case, base, cls, do_cli=False):
    acc = ctx.acc
    rng = ctx.rng("pat" + str(len(case["files"])))
    shutil.rmtree(base, ignore_errors=True)
    root, rendered = forest.materialize(case, base)
    realroot = os.path.realpath(root)
    ok, per_tu, expected = forest.gcc_expect(case, base, rendered)
    if not ok:
        acc.excluded("gcc-diagnostic", cls=cls)
        return
    # every other case obtains its configuration the way the front ends do (database files + load_database)
    conf = forest.cbi_configuration_db(case, base) if case.get("via_db") else forest.cbi_configuration(case, base)
    inroot = [r for r in case["files"] if not r.startswith("@out/")]
    try:
        state0, cb0 = cbi.run_find(root, conf)
        acc.hook("find")
        attr0 = attribution(state0, case, base)
        sm0 = setmap_of(state0, cb0)
        acc.hook("get_setmap")
    except Exception as e:
        acc.violated({"input": case, "witness": {"kind": "exception-without-exclusion", "observed": f"{type(e).__name__}: {e}"}}, cls=cls)
        return
    base_problems = []
    obs0 = {}
    for rel, lines in attr0.items():
        for ln, ps in lines.items():
            for p in ps:
                obs0.setdefault(p, {}).setdefault(rel, set()).add(ln)
    d = forest.diff(expected, obs0)
    if d:
        base_problems.append({"kind": "attribution-vs-gcc-without-exclusion", "diff": d[:5]})
    if project_setmap(attr0, inroot) != sm0:
        base_problems.append({"kind": "setmap-without-exclusion", "expected": {",".join(sorted(k)): v for k, v in project_setmap(attr0, inroot).items()},
                              "observed": {",".join(sorted(k)): v for k, v in sm0.items()}})
    out_hdrs = [r for r in case["files"] if r.startswith("@out/")]
    cells0 = set()
    if any(r in attr0 and any(attr0[r].values()) for r in out_hdrs):
        cells0.add("out-of-root-header")
        cells0.add("out-of-root-header-defines-macro")
    if any(tu["file"].startswith("@out/") for tu in case["tus"]):
        cells0.add("compiled-file-outside-root")
    if case.get("flinks") and any(attr0.get("@out/ext/olinked.h", {}).values()):
        cells0.add("outside-header-included-through-link-in-root")
    if case.get("hidden"):
        cells0.add("directive-looking-line-inside-block-comment-in-headers")
        if any(r in attr0 and any(attr0[r].values()) for r in out_hdrs):
            cells0.add("directive-looking-line-inside-block-comment-in-outside-header")
    if case.get("via_db"):
        cells0.add("configuration-via-load_database")
    for pats, pcell in pattern_sets(rng, case, ctx.quick):
        cells = set(cells0) | {pcell}
        problems = list(base_problems)
        try:
            ign = git.ignored(realroot, pats, inroot)
        except Exception as e:
            acc.inconc(f"git oracle failed: {e}")
            continue
        members = [r for r in inroot if not ign.get(r, False)]
        matched = [r for r in inroot if ign.get(r, False)]
        if not members:
            cells.add("all-files-excluded")
        if any(not r.endswith(".h") for r in matched):
            cells.add("excluded-compiled-file")
        if any(r.endswith(".h") for r in matched):
            cells.add("excluded-header")
        # does an excluded file define a macro that a remaining file's attribution depends on?
        sens = False
        for r in matched:
            mac = "D_" + forest.fid(r)
            if any(mac in rendered[m].text for m in members if m != r) and r in attr0 and any(attr0[r].values()):
                sens = True
        if sens:
            cells.add("excluded-file-defines-macro-others-test")
        try:
            state, cb = cbi.run_find(root, conf, exclude_patterns=pats)
            acc.hook("find")
            attr = attribution(state, case, base)
            sm = setmap_of(state, cb)
            acc.hook("get_setmap")
            for rel in sorted(set(attr0) | set(attr)):
                if rel in matched and rel not in attr:
                    continue    # an excluded file that nothing compiles or includes need not be parsed at all
                if attr.get(rel) != attr0.get(rel):
                    a, b = attr0.get(rel, {}), attr.get(rel, {})
                    ch = sorted(ln for ln in set(a) | set(b) if a.get(ln) != b.get(ln))[:10]
                    problems.append({"kind": "attribution-changed-by-exclusion", "file": rel, "excluded": rel in matched, "lines": ch})
            want = project_setmap(attr0, members)
            if want != sm:
                problems.append({"kind": "setmap-not-projection", "expected": {",".join(sorted(k)): v for k, v in want.items()},
                                 "observed": {",".join(sorted(k)): v for k, v in sm.items()}})
            listed = {os.path.relpath(os.path.realpath(p), realroot) for p in cb}
            if listed != set(members):
                problems.append({"kind": "codebase-members", "expected": sorted(members), "observed": sorted(listed)})
        except Exception as e:
            problems.append({"kind": "exception-with-exclusion", "observed": f"{type(e).__name__}: {e}"})
        rec_in = {"files": case["files"], "tus": case["tus"], "patterns": pats}
        nontriv = {"files": {k: str(v) for k, v in case["files"].items()}, "tus": case["tus"], "patterns": pats} if sens else None
        if problems:
            acc.violated({"input": rec_in, "witness": {"patterns": pats, "matched": matched, "problems": problems[:5],
                                                        "files": {rel: rendered[rel].text for rel in list(rendered)[:8]}}},
                         cells=cells, nontrivial=nontriv, cls=cls)
        else:
            acc.held(cells=cells, nontrivial=nontriv, cls=cls,
                     sample={"patterns": pats, "matched": matched, "setmap": {",".join(sorted(k)): v for k, v in sm.items()},
                             "setmap_without_exclusion": {",".join(sorted(k)): v for k, v in sm0.items()}})
    if do_cli and not base_problems:
        cli_check(ctx, git, case, base, rng, inroot, attr0)
    if not base_problems and len(case["files"]) % 3 == 0:
        multi_directory_check(ctx, git, case, base, conf, attr0, inroot, realroot, cls)


def tree_twice_in_one_process(ctx, base):
    """The cbi-tree front end called twice in ONE interpreter (as a library user or a test-suite would): first with an
    analysis file that excludes a header, then with one that excludes nothing.  The second call lists the header."""
    acc = ctx.acc
    d = os.path.join(base, "twice")
    shutil.rmtree(d, ignore_errors=True)
    os.makedirs(d)
    for rel, text in (("main.c", "#include \"config.h\"\nint m;\n"), ("config.h", "#define C 1\nint c;\n")):
        with open(os.path.join(d, rel), "w") as f:
            f.write(text)
    with open(os.path.join(d, "db.json"), "w") as f:
        json.dump([{"file": "main.c", "directory": d, "arguments": ["gcc", "-c", "main.c"]}], f)
    with open(os.path.join(d, "first.toml"), "w") as f:
        f.write('[codebase]\nexclude = ["config.h"]\n\n[platform.p]\ncommands = "db.json"\n')
    with open(os.path.join(d, "second.toml"), "w") as f:
        f.write('[platform.p]\ncommands = "db.json"\n')
    script = ("import sys\nfrom codebasin import tree\n"
              "for a in (['first.toml'], ['-p', 'p', 'first.toml'], ['second.toml']):\n"
              "    print('@@RUN', flush=True)\n"
              "    try:\n        tree.cli(a)\n    except SystemExit:\n        pass\n"
              "    sys.stdout.flush()\n")
    import subprocess
    from cbimon import core
    p = subprocess.run([core.PY, "-c", script], cwd=d, env=core.worker_env(), capture_output=True, text=True, timeout=300)
    acc.hook("cli-runs")
    cells = {"cli:tree-front-end-twice-in-one-process"}
    sections = p.stdout.split("@@RUN")[1:]
    observed = " ".join(str("config.h" in x) for x in sections)
    if p.returncode != 0 or observed != "False False True":
        acc.violated({"input": {"scenario": "tree twice"}, "witness": {"kind": "second cbi-tree call in one process is influenced by the first",
                                                                          "expected": "False False True", "observed": observed, "stderr": p.stderr[-300:]}},
                     cells=cells, cls="cli")
    else:
        acc.held(cells=cells, cls="cli")


def hard_link_exclusion(ctx, git, base):
    """Two names (hard links) for one header inside the code base -- a header 'installed' into include/ by hard link.
    They are two files of the code base: each name's lines are counted, and an exclude pattern matching one name
    removes exactly that name's lines.  Expected: projection of the per-line attribution onto the members git keeps."""
    acc = ctx.acc
    d = os.path.join(base, "hard")
    shutil.rmtree(d, ignore_errors=True)
    os.makedirs(os.path.join(d, "src"))
    os.makedirs(os.path.join(d, "include"))
    files = {"src/config.h": "#define HAVE_CFG 1\nint c1;\nint c2;\n#ifdef GPU\nint cg;\n#endif\n",
             "src/main.c": "#include \"config.h\"\nint m;\n#ifdef HAVE_CFG\nint hc;\n#endif\n",
             "src/gpu.c": "#include \"../include/config.h\"\nint g;\n"}
    for rel, text in files.items():
        with open(os.path.join(d, rel), "w") as f:
            f.write(text)
    os.link(os.path.join(d, "src/config.h"), os.path.join(d, "include/config.h"))
    names = sorted(files) + ["include/config.h"]
    conf = {"cpu": [{"file": os.path.join(d, "src/main.c"), "defines": [], "include_paths": [], "include_files": []}],
            "gpu": [{"file": os.path.join(d, "src/gpu.c"), "defines": ["GPU"], "include_paths": [], "include_files": []}]}
    for pats in ([], ["/src/config.h"], ["/include/config.h"], ["config.h"], ["/include/"], ["*.h", "!/include/config.h"]):
        problems = []
        try:
            state, cb = cbi.run_find(d, conf, exclude_patterns=pats)
            acc.hook("find")
            attr = {}
            for rel in names:
                p_ = os.path.join(d, rel)
                if state.get_tree(p_) is not None:
                    attr[rel] = cbi.per_line(state, p_)[0]
            ign = git.ignored(d, pats, names)
            members = [r for r in names if not ign.get(r, False)]
            want = project_setmap(attr, members)
            got = setmap_of(state, cb)
            acc.hook("get_setmap")
            if want != got:
                problems.append({"kind": "setmap with two hard-linked names", "patterns": pats, "members": members,
                                 "expected": {",".join(sorted(k)): v for k, v in want.items()},
                                 "observed": {",".join(sorted(k)): v for k, v in got.items()}})
            listed = sorted(os.path.relpath(x, d) for x in cb)
            if listed != sorted(members):
                problems.append({"kind": "members with two hard-linked names", "patterns": pats, "expected": sorted(members), "observed": listed})
        except Exception as e:
            problems.append({"kind": "exception", "patterns": pats, "observed": f"{type(e).__name__}: {e}"})
        cells = {"hard-linked-names:" + ("one-excluded" if pats else "both-members")}
        case = {"scenario": "hard links", "patterns": pats}
        if problems:
            acc.violated({"input": case, "witness": {"files": files, "hard_link": "include/config.h -> src/config.h", "problems": problems}}, cells=cells, cls="hard")
        else:
            acc.held(cells=cells, cls="hard", nontrivial=case)


def cli_pattern_scenarios(ctx, git, base):
    """Fixed tree, pattern lists split between `-x` and `[codebase] exclude` in ways in which order, repetition and
    punctuation matter: a pattern repeated on both sides of a negation, a file name holding a comma, a directory-only
    pattern that must not match a file.  The command line's patterns come first, the analysis file's after them.
    Expected members: git check-ignore on the merged list; observed: Total SLOC / rows of codebasin, files of cbi-tree."""
    acc = ctx.acc
    d = os.path.join(base, "clipat")
    shutil.rmtree(d, ignore_errors=True)
    os.makedirs(os.path.join(d, "tests"))
    files = {"a.c": "#include \"keep.h\"\n#include \"small.h\"\n#include \"tables,small.h\"\nint a;\n", "keep.h": "int k1;\nint k2;\nint k3;\nint k4;\n", "small.h": "int s1;\nint s2;\nint s3;\n",
             "tables,small.h": "int t1;\nint t2;\nint t3;\nint t4;\nint t5;\nint t6;\n", "test_io.cpp": "int io;\nint io2;\n", "tests/unit.cpp": "int u;\n", "other.h": "int o;\n"}
    for rel, text in files.items():
        with open(os.path.join(d, rel), "w") as f:
            f.write(text)
    with open(os.path.join(d, "db.json"), "w") as f:
        json.dump([{"file": "a.c", "directory": d, "arguments": ["gcc", "-c", "a.c"]}], f)
    sloc = {rel: len(text.splitlines()) for rel, text in files.items()}
    scen = [(["*.h"], ["!keep.h", "*.h"]), (["*.h"], ["!keep.h"]), (["*.h", "!keep.h"], ["*.h"]), (["tables,small.h"], []), ([], ["tables,small.h"]),
            (["small.h"], ["!small.h", "small.h"]), (["test*/"], []), ([], ["test*/"]), (["tests/", "test*/"], ["test_io.cpp", "!test_io.cpp"]), (["./keep.h"], ["/keep.h"]),
            (["*.h", "*.h"], ["!other.h", "!other.h"]), (["a,b", "*.cpp"], ["!test_io.cpp"])]
    for k, (xs, ts) in enumerate(scen):
        if (k + 2) % ctx.nshards != ctx.shard:
            continue
        merged = xs + ts
        try:
            ign = git.ignored(d, merged, sorted(files))
        except Exception as e:
            acc.inconc(f"git oracle failed: {e}")
            continue
        members = sorted(r for r in files if not ign.get(r, False))
        with open(os.path.join(d, "analysis.toml"), "w") as f:
            if ts:
                f.write("[codebase]\nexclude = [%s]\n\n" % ", ".join(json.dumps(p_) for p_ in ts))
            f.write('[platform.p]\ncommands = "db.json"\n')
        xargs = [y for p_ in xs for y in ("-x", p_)]
        problems = []
        rc, out, err = cli.run("codebasin", ["-R", "summary"] + xargs + ["analysis.toml"], d)
        acc.hook("find")
        if rc != 0:
            problems.append({"kind": "codebasin failed", "stderr": err[-300:]})
        else:
            sm = cli.parse_summary(out)
            want_total = sum(sloc[r] for r in members)
            if sm["metrics"].get("Total SLOC") != str(want_total):
                problems.append({"kind": "codebasin: Total SLOC with patterns split between -x and the analysis file", "members": members,
                                 "expected": want_total, "observed": sm["metrics"].get("Total SLOC")})
        rc, out, err = cli.run("cbi-tree", xargs + ["analysis.toml"], d)
        if rc != 0:
            problems.append({"kind": "cbi-tree failed", "stderr": err[-300:]})
        else:
            legend, rows = cli.parse_tree(out)
            names = sorted(r["name"] for r in rows if not r["is_dir"])
            if names != sorted(os.path.basename(m) for m in members):
                problems.append({"kind": "cbi-tree: files listed with patterns split between -x and the analysis file",
                                 "expected": sorted(os.path.basename(m) for m in members), "observed": names})
        cells = {"cli:fixed-pattern-scenarios"}
        if any("," in p_ for p_ in merged):
            cells.add("cli:pattern-holding-a-comma")
        if set(xs) & set(ts) and any(p_.startswith("!") for p_ in merged):
            cells.add("cli:pattern-repeated-around-a-negation")
        if any(p_.endswith("/") and "*" in p_ for p_ in merged):
            cells.add("cli:directory-only-wildcard-pattern-beside-a-file-of-that-name")
        case = {"scenario": "cli patterns", "-x": xs, "analysis-file": ts}
        if problems:
            acc.violated({"input": case, "witness": dict(case, merged=merged, members=members, problems=problems)}, cells=cells, cls="cli")
        else:
            acc.held(cells=cells, cls="cli", nontrivial=case)


def multi_directory_check(ctx, git, case, base, conf, attr0, inroot, realroot, cls):
    """The code base given as two directories (library API): each pattern is read relative to the directory that holds
    the file, so the lines that remain are the union of what the two single-directory code bases keep."""
    from codebasin import CodeBase, finder
    acc = ctx.acc
    tops = sorted({r.split("/")[0] for r in inroot if "/" in r})
    if len(tops) < 2:
        return
    d1, d2 = tops[0], tops[-1]
    if "inc" in tops and "inc2" in tops and len(case["files"]) % 2 == 0:
        d1, d2 = "inc", "inc2"          # the first name is a string prefix of the second
        acc.cells["code-base-of-two-directories:name-prefix-related"] += 1
    dirs = [os.path.join(realroot, d1), os.path.join(realroot, d2)]
    sub1 = sorted({r.split("/")[1] for r in inroot if r.startswith(d1 + "/") and r.count("/") >= 1})
    sub2 = sorted({r.split("/")[1] for r in inroot if r.startswith(d2 + "/")})
    pats_list = [["/" + sub1[0]] if sub1 else ["*.h"], ["sub/"], ["/sub/"], ["*.h", "!/x.h"], [d1 + "/"], ["/" + d1 + "/" + (sub1[0] if sub1 else "x")],
                 ["/" + sub2[0]] if sub2 else ["*.c"], ["/" + x for x in sub2[:2]] + ["/y.h"]]
    for pats in pats_list:
        problems = []
        try:
            members = []
            for d in dirs:
                rels = [os.path.relpath(os.path.join(realroot, r), d) for r in inroot if r.startswith(os.path.basename(d) + "/")]
                ign = git.ignored(d, pats, rels)
                members += [os.path.relpath(os.path.join(d, r), realroot) for r in rels if not ign.get(r, False)]
            cb = CodeBase(*dirs, exclude_patterns=pats)
            state = finder.find(realroot, cb, conf)
            acc.hook("find")
            sm = setmap_of(state, cb)
            want = project_setmap(attr0, members)
            if want != sm:
                problems.append({"kind": "two-directory code base: setmap is not the projection on the members of both directories",
                                 "directories": [d1, d2], "expected": {",".join(sorted(k)): v for k, v in want.items()},
                                 "observed": {",".join(sorted(k)): v for k, v in sm.items()}})
            listed = {os.path.relpath(os.path.realpath(p), realroot) for p in cb}
            if listed != set(members):
                problems.append({"kind": "two-directory code base: members", "expected": sorted(members), "observed": sorted(listed)})
        except Exception as e:
            problems.append({"kind": "exception-two-directory-code-base", "observed": f"{type(e).__name__}: {e}"})
        cells = {"code-base-of-two-directories"}
        if problems:
            acc.violated({"input": {"files": case["files"], "tus": case["tus"], "patterns": pats, "directories": [d1, d2]},
                          "witness": {"patterns": pats, "directories": [d1, d2], "problems": problems[:4]}}, cells=cells, cls="multi")
        else:
            acc.held(cells=cells, cls="multi")


def cli_check(ctx, git, case, base, rng, inroot, attr0):
    from cbimon.props import c08
    acc = ctx.acc
    root, _ = forest.paths(base)
    realroot = os.path.realpath(root)
    toml = c08.write_dbs(case, base)
    sub = rng.sample(inroot, max(2, len(inroot) // 3))
    pats = ["/" + x for x in sub]
    # directory-only patterns with wildcards: the trailing slash is part of their meaning
    pats += [[], ["src/*/"], ["*c/", "s*b/"]][len(inroot) % 3]
    if len(inroot) % 3:
        acc.cells["cli:directory-only-wildcard-pattern"] += 1
    ign = git.ignored(realroot, pats, inroot)
    members = [r for r in inroot if not ign.get(r, False)]
    problems = []
    cells = set()
    # -x on the command line
    xargs = [y for p in pats for y in ("-x", p)]
    rc1, out1, err1 = cli.run("codebasin", ["-R", "summary"] + xargs + [toml], root)
    # the same patterns in the analysis file
    with open(os.path.join(root, toml)) as f:
        body = f.read()
    with open(os.path.join(root, "analysis_x.toml"), "w") as f:
        f.write("[codebase]\nexclude = [%s]\n\n" % ", ".join(json.dumps(p) for p in pats) + body)
    rc2, out2, err2 = cli.run("codebasin", ["-R", "summary", "analysis_x.toml"], root)
    s1, s2 = cli.parse_summary(out1), cli.parse_summary(out2)
    cells.add("cli:-x-vs-toml")
    # half of the patterns on the command line, the other half in the analysis file
    half = max(1, len(pats) // 2)
    with open(os.path.join(root, "analysis_h.toml"), "w") as f:
        f.write("[codebase]\nexclude = [%s]\n\n" % ", ".join(json.dumps(p) for p in pats[half:]) + body)
    rc5, out5, err5 = cli.run("codebasin", ["-R", "summary"] + [y for p in pats[:half] for y in ("-x", p)] + ["analysis_h.toml"], root)
    s5 = cli.parse_summary(out5)
    cells.add("cli:-x-plus-toml")
    if rc5 != 0 or s5["rows"] != s1["rows"] or s5["metrics"] != s1["metrics"]:
        problems.append({"kind": "patterns split between -x and [codebase] exclude differ from all on the command line",
                         "split": str(s5)[:300], "all-x": str(s1)[:300], "stderr": err5[-200:]})
    if rc1 != 0 or rc2 != 0 or s1["rows"] != s2["rows"] or s1["metrics"] != s2["metrics"]:
        problems.append({"kind": "cli -x differs from [codebase] exclude", "rc": [rc1, rc2], "x": str(s1)[:400], "toml": str(s2)[:400],
                         "stderr": (err1 + err2)[-300:]})
    want = project_setmap(attr0, members)
    got = {k: v[0] for k, v in s1["rows"].items() if v[0]}
    if rc1 == 0 and got != want:
        problems.append({"kind": "cli summary with -x is not the projection", "expected": {",".join(sorted(k)): v for k, v in want.items()},
                         "observed": {",".join(sorted(k)): v for k, v in got.items()}})
    # cbi-tree: excluded files are not listed
    rc3, out3, err3 = cli.run("cbi-tree", xargs + [toml], root)
    legend, rows = cli.parse_tree(out3)
    cells.add("cli:tree")
    names = [r["name"] for r in rows if not r["is_dir"]]
    for r in sub:
        if os.path.basename(r) in names and sum(1 for m in members if os.path.basename(m) == os.path.basename(r)) == 0:
            problems.append({"kind": "cbi-tree lists an excluded file", "file": r})
    if rc3 != 0:
        problems.append({"kind": "cbi-tree failed", "stderr": err3[-300:]})
    # cbi-cov: excluded files are not exported
    db = os.path.join(base, "dbs", forest.dbname(sorted({t["platform"] for t in case["tus"]})[0]))
    rc4, out4, err4 = cli.run("cbi-cov", ["compute", "-S", root] + xargs + ["-o", os.path.join(base, "cov.json"), db], root)
    cells.add("cli:cov")
    if rc4 != 0:
        problems.append({"kind": "cbi-cov failed", "stderr": err4[-300:]})
    else:
        cov = json.load(open(os.path.join(base, "cov.json")))
        listed = {e["file"] for e in cov}
        # a second name (file symlink) of a member inside the root is enumerated too; a link to an outside file is not
        link_names = {l for l, t in case.get("flinks", {}).items() if t in members}
        if listed - link_names != set(members) or not (listed & set(case.get("flinks", {})) <= link_names):
            problems.append({"kind": "cbi-cov file list", "expected": sorted(members), "observed": sorted(listed)})
    if problems:
        acc.violated({"input": {"files": case["files"], "tus": case["tus"], "patterns": pats},
                      "witness": {"patterns": pats, "problems": problems[:5]}}, cells=cells, cls="cli")
    else:
        acc.held(cells=cells, cls="cli")


def run_shard(ctx):
    b = bounds(ctx.tier)
    git = GitIgnore(ctx.scratch)
    base = os.path.join(ctx.scratch, "c10")
    if ctx.shard == 0:
        tree_twice_in_one_process(ctx, base)
    if ctx.shard == 1 % ctx.nshards:
        hard_link_exclusion(ctx, git, base)
    cli_pattern_scenarios(ctx, git, base)
    rng = ctx.rng("cases")
    for i in range(b["cases"]):
        small = rng.random() < 0.4
        case = forest.gen(rng, n_tus=rng.randint(1, 2) if small else rng.randint(1, 4), outside=rng.random() < 0.5,
                          findable=True, subdir=not small, outside_tu=(i % 3 == 1), links=(i % 4 == 0))
        case["via_db"] = i % 2 == 1
        if i % 4 == 2:
            # every header ends with a block comment (opened and closed on code lines) around a directive-looking line
            # that would define or undefine a macro other files test, were it read as a directive
            for k_, rel in enumerate(sorted(r_ for r_ in case["files"] if r_.endswith(".h"))):
                case["files"][rel] = case["files"][rel] + [["hidden", ["#define A 1", "#define B 1", "#undef T", "#define C 1", "#define LVL 9"][k_ % 5]]]
            case["hidden"] = True
        for tu in case["tus"]:
            tu["search"] = [["I", d] for _, d in tu["search"]]
        if not small:
            # a top-level directory with the same name as a deeper one (src/sub), for anchored patterns
            case["files"]["sub/extra.c"] = [["code"], ["code"]]
            case["files"]["sub/keep.c"] = [["code"]]
            case["files"]["src/sub/deep_extra.c"] = [["code"], ["chain", [["ifdef", "A", [["code"]]]]]]
        if small:
            # keep small cases small: at most 5 files in the root so that every subset is tried
            pass
        if ctx.mine(i):
            check_case(ctx, git, case, base, "R", do_cli=(i < b["cli_cases"] * 16 and i % 16 == ctx.shard))
    shutil.rmtree(base, ignore_errors=True)


def replay(record, ctx):
    return {"verdict": "unknown", "note": "re-run ./check C10 with the recorded seed; the witness holds files, commands and patterns"}
