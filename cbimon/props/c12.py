"""
C12 -- compiler emulation: aliases, implicit options, modes and passes.

Monitored execution: config._load_compilers() in a scratch directory holding a
generated .cbi/config, then config.ArgumentParser(argv0).parse_args(argv) for
command lines enabling subsets of the configured flags; config.load_database +
finder.find end-to-end on files guarded by _OPENMP, __CUDA_ARCH__,
__SYCL_DEVICE_ONLY__.  Oracles: the ccmodel reference semantics; model-free
relations (implicit == explicit, alias == target, user file only adds, repeated
parse gives the same answer); gcc per pass for the end-to-end part.
"""

import itertools
import json
import os
import shutil

from cbimon import cbi, hooks
from cbimon.oracles import ccmodel, gcc

PROP = "C12"
RULE = ("E: the four built-in definition files with every subset of their documented flags (and -fsycl-targets / "
        "--gpu-architecture / --gpu-code / -gencode value lists of size <=3) for every built-in compiler name and alias; all "
        "alias graphs over <=4 names (chains, cycles, dangling). R: generated .cbi/config files (new compilers, alias "
        "chains, implicit options, parser rules append_const / store_split / extend_match with default / override / two "
        "flag spellings, modes, passes, extensions of built-in compilers) x command lines enabling random subsets of the "
        "flags, each parsed twice and interleaved with other commands. Non-trivial: >=1 mode or pass beyond default "
        "contributes; distinct by (config, argv).")
ASSUMPTIONS = ["ccmodel (written from the documentation and the schema) is the reference for generated rules with unambiguous flags",
               "the `default` of a pass-selecting rule applies whenever the flag is absent (as the built-in nvcc/icx files intend)",
               "contributions of passes and modes are compared as multisets, the command-line part as an ordered list"]
REQUIRED_HOOKS = ["parse_args", "_load_compilers"]


def bounds(tier):
    return {"random_configs": 150 if tier == "quick" else 5000, "cmds_per_config": 8, "e2e": 40 if tier == "quick" else 800}


def exhaustive(tier):
    return True


def required_cells(tier):
    return ["alias:chain-1", "alias:chain-2", "alias:chain-3", "alias:cycle", "alias:dangling", "alias:self", "alias:chain>=15", "alias:long-cycle", "name:dotted", "action:append_const",
            "action:store_split", "action:extend_match", "extend_match:override", "extend_match:no-override", "rule:two-flags",
            "pass-with-modes", "user-extends-builtin", "user-redefines-as-alias", "implicit==explicit", "alias==target",
            "repeat-parse", "implicit-option:attached-value", "builtin:gcc", "builtin:clang", "builtin:icx", "builtin:nvcc", "e2e:_OPENMP", "e2e:__CUDA_ARCH__",
            "e2e:__SYCL_DEVICE_ONLY__", "e2e:passes-differ-in-include-files", "unknown-compiler", "e2e:passes-differ-in-include-paths", "format:$value", "format:${value}", "argv0:symlink-to-known-compiler",
            "implicit-option:dollar-name-set-in-environment", "argv:strict-prefix-of-configured-flag", "e2e:launcher-as-argv0", "default:plain-string", "e2e:conditional-free-source-with-pass-dependent-header",
            "e2e:pass-selecting-flag-given-twice", "e2e:pass-selecting-flag-among-implicit-options", "argv:response-file-token"]


# ------------------------------------------------------------------ TOML --
def toml_str(s):
    return json.dumps(s)


def toml_list(l):
    return "[" + ", ".join(toml_str(x) for x in l) + "]"


def dump_config(user):
    out = []
    for name, d in user.items():
        q = toml_str(name)
        out.append(f"[compiler.{q}]")
        if "alias_of" in d:
            out.append(f"alias_of = {toml_str(d['alias_of'])}")
            out.append("")
            continue
        if d.get("options"):
            out.append(f"options = {toml_list(d['options'])}")
        out.append("")
        for r in d.get("parser", []):
            out.append(f"[[compiler.{q}.parser]]")
            for k, v in r.items():
                if isinstance(v, list):
                    out.append(f"{k} = {toml_list(v)}")
                elif isinstance(v, bool):
                    out.append(f"{k} = {'true' if v else 'false'}")
                else:
                    out.append(f"{k} = {toml_str(v)}")
            out.append("")
        for key in ("modes", "passes"):
            for m in d.get(key, []):
                out.append(f"[[compiler.{q}.{key}]]")
                for k, v in m.items():
                    out.append(f"{k} = {toml_list(v) if isinstance(v, list) else toml_str(v)}")
                out.append("")
    return "\n".join(out) + "\n"


# ------------------------------------------------------------- generators --
def gen_config(rng):
    """Random user configuration. Flags are unique and unambiguous (no flag is a prefix of another)."""
    user = {}
    cells = set()
    fcount = [0]

    def flag():
        fcount[0] += 1
        return f"--zz{fcount[0]:02d}x"

    def gen_compiler(prefix, extend=False):
        d = {}
        modes = [{"name": f"{prefix}m{i}", "defines": [f"{prefix.upper()}M{i}"] + ([f"{prefix.upper()}M{i}B=2"] if rng.random() < 0.3 else [])}
                 for i in range(rng.randint(0, 3))]
        for m in modes:
            if rng.random() < 0.3:
                m["include_paths"] = [f"/opt/{m['name']}/inc"]
            if rng.random() < 0.2:
                m["include_files"] = [f"{m['name']}.h"]
        passes = []
        for i in range(rng.randint(0, 4)):
            p = {"name": f"{prefix}p{i}", "defines": [f"{prefix.upper()}P{i}={i}"]}
            if modes and rng.random() < 0.5:
                p["modes"] = [rng.choice(modes)["name"]]
                cells.add("pass-with-modes")
            if rng.random() < 0.2:
                p["include_paths"] = [f"/opt/pass{i}"]
            passes.append(p)
        rules = []
        for m in modes:
            if rng.random() < 0.8:
                rules.append({"flags": [flag()], "action": "append_const", "dest": "modes", "const": m["name"]})
                cells.add("action:append_const")
        if rng.random() < 0.5:
            rules.append({"flags": [flag()], "action": "append_const", "dest": "defines", "const": f"{prefix.upper()}_CONST=1"})
            cells.add("action:append_const")
        if passes and rng.random() < 0.5:
            rules.append({"flags": [flag()], "action": "append_const", "dest": "passes", "const": rng.choice(passes)["name"]})
        if passes and rng.random() < 0.6:
            r = {"flags": [flag()] + ([flag()] if rng.random() < 0.35 else []), "action": "store_split", "sep": ",",
                 "format": prefix + ("p$value" if fcount[0] % 2 else "p${value}"), "dest": "passes"}     # both placeholder spellings
            cells.add("format:" + ("$value" if "$v" in r["format"] else "${value}"))
            if rng.random() < 0.6:
                r["default"] = [passes[0]["name"]]
                if fcount[0] % 3 == 0:
                    # the schema also allows a plain string: one pass name, not a list of letters
                    r["default"] = passes[0]["name"]
                    cells.add("default:plain-string")
            if len(r["flags"]) == 2:
                cells.add("rule:two-flags")
            rules.append(r)
            cells.add("action:store_split")
        if passes and rng.random() < 0.6:
            r = {"flags": [flag()] + ([flag()] if rng.random() < 0.35 else []), "action": "extend_match", "pattern": r"(?:a|b)_(\d+)",
                 "format": prefix + ("p$value" if fcount[0] % 2 else "p${value}"), "dest": "passes"}
            cells.add("format:" + ("$value" if "$v" in r["format"] else "${value}"))
            if rng.random() < 0.7:
                r["default"] = [passes[-1]["name"]]
                if fcount[0] % 3 == 1:
                    r["default"] = passes[-1]["name"]
                    cells.add("default:plain-string")
            if rng.random() < 0.5:
                r["override"] = True
                cells.add("extend_match:override")
            else:
                cells.add("extend_match:no-override")
            if len(r["flags"]) == 2:
                cells.add("rule:two-flags")
            rules.append(r)
            cells.add("action:extend_match")
        if rng.random() < 0.3:
            rules.append({"flags": [flag()], "action": "extend_match", "pattern": r"([A-Z]+)", "format": "EM_$value", "dest": "defines"})
            cells.add("action:extend_match")
        opts = []
        if rng.random() < 0.6:
            opts += [f"-D{prefix.upper()}_IMPLICIT", "-I", f"/implicit/{prefix}"]
        if rng.random() < 0.3:
            opts += [f"-isystem/implicit/sys_{prefix}", f"-includeimplicit_{prefix}.h"]    # value attached to the flag
            cells.add("implicit-option:attached-value")
        if rng.random() < 0.2:
            # implicit options are literal strings: `$NAME` is not expanded even if NAME is set in the environment
            opts += ["-DBUILD_ROOT=$CBI_ENVVAR", "-I$CBI_ENVVAR/include", "-D${CBI_ENVVAR}_X=~"]
            cells.add("implicit-option:dollar-name-set-in-environment")
        if rules and rng.random() < 0.3:
            r0 = rules[0]
            if r0["action"] == "append_const":
                opts.append(r0["flags"][0])
        if not opts and not rules and not modes and not passes:
            opts = [f"-D{prefix.upper()}_ONLY"]      # an empty table matches both schema alternatives and is rejected
        if opts:
            d["options"] = opts
        if rules:
            d["parser"] = rules
        if modes:
            d["modes"] = modes
        if passes:
            d["passes"] = passes
        return d

    n = rng.randint(1, 3)
    for i in range(n):
        user[f"cc{i}"] = gen_compiler(f"c{i}")
    if rng.random() < 0.4:
        # executable names carrying versions, target triplets and dots; one name is the other's stem
        for j, nm in enumerate(rng.sample(["gcc-4.8", "x86_64-linux-gnu-g++-12.2", "cc0.real", "tool.v1", "tool", "clang++-15", "a.b.c"],
                                          rng.randint(1, 3))):
            user[nm] = gen_compiler(f"d{j}")
        cells.add("name:dotted")
    if rng.random() < 0.2:
        # a long, valid alias chain (ln0 -> ln1 -> ... -> cc0), optionally closed into a long cycle instead
        ln = rng.choice([8, 15, 16, 17, 33])
        closed = rng.random() < 0.3
        for j in range(ln):
            user[f"ln{j}"] = {"alias_of": f"ln{j + 1}" if j + 1 < ln else ("ln0" if closed else "cc0")}
        cells.add("alias:long-cycle" if closed else "alias:chain>=15" if ln >= 15 else "alias:chain-3")
    # aliases
    x = rng.random()
    if x < 0.5:
        user["al1"] = {"alias_of": "cc0"}
        cells.add("alias:chain-1")
        if rng.random() < 0.6:
            user["al2"] = {"alias_of": "al1"}
            cells.add("alias:chain-2")
            if rng.random() < 0.5:
                user["al3"] = {"alias_of": "al2"}
                cells.add("alias:chain-3")
    if rng.random() < 0.25:
        user["loopa"] = {"alias_of": "loopb"}
        user["loopb"] = {"alias_of": "loopa"}
        cells.add("alias:cycle")
    if rng.random() < 0.2:
        user["dangle"] = {"alias_of": "nonexistent-compiler"}
        cells.add("alias:dangling")
    if rng.random() < 0.35:
        b = rng.choice(["gcc", "clang", "icx", "nvcc"])
        user[b] = gen_compiler("u" + b[0], extend=True)
        cells.add("user-extends-builtin")
    if rng.random() < 0.15:
        user["g++"] = {"alias_of": "clang"}
        cells.add("user-redefines-as-alias")
    return user, cells


ABBREV_SEEN = [0]


def gen_argv(rng, compilers, name):
    comp, status = ccmodel.resolve(compilers, name)
    comp = comp or {}
    argv = []
    for _ in range(rng.randint(0, 3)):
        argv += rng.choice([["-DX=1"], ["-D", "Y"], ["-I/inc"], ["-I", "rel/inc"], ["-isystem", "/sys"], ["-include", "f.h"], ["-O2"], ["-c"],
                            ["-isystem/sys2"], ["-includeg.h"]])
    for r in comp.get("parser", []):
        if rng.random() < 0.55:
            f = rng.choice(r["flags"])
            if r["action"] == "append_const":
                argv.append(f)
            elif r["action"] == "store_split":
                vals = ",".join(str(rng.randint(0, 4)) for _ in range(rng.randint(1, 3)))
                if r.get("format", "").startswith("sycl-"):
                    vals = ",".join(rng.sample(["spir64", "spir64_x86_64", "spir64_gen", "spir64_fpga", "nvptx64-nvidia-cuda"], rng.randint(1, 3)))
                argv += [f"{f}={vals}"] if rng.random() < 0.6 else [f, vals]
            elif r["action"] == "extend_match":
                if "sm_" in r.get("pattern", ""):
                    vals = ",".join(rng.choice(["sm_", "compute_"]) + rng.choice(["70", "75", "80", "89", "90"]) for _ in range(rng.randint(1, 3)))
                elif "[A-Z]" in r.get("pattern", ""):
                    vals = rng.choice(["ABC", "X,Y", "lower", "Q1W"])
                else:
                    vals = ",".join(rng.choice(["a_", "b_", "c_"]) + str(rng.randint(0, 4)) for _ in range(rng.randint(1, 3)))
                argv += [f"{f}={vals}"] if rng.random() < 0.6 else [f, vals]
                if rng.random() < 0.3:
                    argv += [f"{f}={vals}"]
    for r in comp.get("parser", []):
        # a strict prefix of a configured double-dash flag is some other, unknown option (no abbreviations)
        f = r["flags"][0]
        if f.startswith("--") and rng.random() < 0.15:
            argv.append(f[:-1] if r["action"] == "append_const" else f[:-1] + "=a_1,b_2")
            ABBREV_SEEN[0] += 1
    rng.shuffle(argv) if rng.random() < 0.5 and not any(a in ("-D", "-I", "-isystem", "-include") or (not a.startswith("-")) for a in argv) else None
    argv.append("src.c")
    return argv


# ----------------------------------------------------------------- checks --
def observe(config, argv0, argv):
    with hooks.monitor(platform=False, evals=False, assoc=False) as ev:
        cfgs = config.ArgumentParser(argv0).parse_args(list(argv))
    out = {}
    for c in cfgs:
        out.setdefault(c.pass_name, []).append((list(c.defines), list(c.include_paths), list(c.include_files)))
    return out, ev


def compare(exp, obs):
    """exp from ccmodel.expected; obs {pass: [(d,p,f)...]}. Returns list of problems."""
    problems = []
    if set(exp) != set(obs):
        problems.append({"kind": "pass set", "expected": sorted(exp), "observed": sorted(obs)})
    for p in sorted(set(exp) & set(obs)):
        if len(obs[p]) != 1:
            problems.append({"kind": "pass listed twice", "pass": p})
            continue
        o = obs[p][0]
        e = exp[p]
        for idx, key in enumerate(("defines", "include_paths", "include_files")):
            cmdpart = e["cmd"][idx]
            if o[idx][: len(cmdpart)] != cmdpart or sorted(o[idx][len(cmdpart):]) != e["extra"][idx]:
                problems.append({"kind": f"pass {p}: {key}", "expected_cmdline_part": cmdpart, "expected_pass_mode_part": e["extra"][idx],
                                 "observed": o[idx]})
    return problems


def load_user(config, work, user):
    shutil.rmtree(os.path.join(work, ".cbi"), ignore_errors=True)
    os.makedirs(os.path.join(work, ".cbi"))
    if user is not None:
        with open(os.path.join(work, ".cbi", "config"), "w") as f:
            f.write(dump_config(user))
    else:
        shutil.rmtree(os.path.join(work, ".cbi"))
    os.chdir(work)
    with hooks.monitor(platform=False, evals=False, assoc=False) as ev:
        config._load_compilers()
    return ev


def check_commands(ctx, config, builtin, user, cmds, cells, cls):
    """cmds: list of (argv0, argv). Each is parsed twice, interleaved, and compared with the model and the relations."""
    acc = ctx.acc
    compilers = ccmodel.merge(builtin, user)
    first = {}
    for rep in range(2):
        for i, (argv0, argv) in enumerate(cmds):
            problems = []
            ccells = set(cells)
            try:
                obs, ev = observe(config, argv0, argv)
                acc.hook("parse_args")
            except BaseException as e:          # (argparse leaves through SystemExit when it calls parser.error)
                if isinstance(e, KeyboardInterrupt):
                    raise
                obs, ev = None, None
                problems.append({"kind": "exception", "observed": f"{type(e).__name__}: {e}"})
            exp, status = ccmodel.expected(compilers, argv0, argv)
            if status in ("loop", "dangling"):
                ccells.add("alias:cycle" if status == "loop" else "alias:dangling")
            if status == "unknown":
                ccells.add("unknown-compiler")
            if obs is not None:
                problems += compare(exp, obs)
                if status in ("loop", "dangling") and not ev.errors():
                    problems.append({"kind": "alias loop / dangling target not reported", "status": status, "logs": ev.logs[:4]})
                if status == "unknown" and not any("not recognized" in w for w in ev.warnings()):
                    problems.append({"kind": "unknown compiler not reported"})
                key = (argv0, tuple(argv))
                if rep == 0:
                    first[key] = obs
                else:
                    ccells.add("repeat-parse")
                    if first.get(key) != obs:
                        problems.append({"kind": "second parse of the same command differs", "first": str(first.get(key))[:400], "second": str(obs)[:400]})
            nontriv = {"user": user, "argv0": argv0, "argv": argv} if any(p != "default" or any(v["extra"]) for p, v in exp.items()) else None
            rec = {"input": {"user_config": user, "argv0": argv0, "argv": argv, "commands": [[a, b] for a, b in cmds]},
                   "witness": {"argv0": argv0, "argv": argv, "problems": problems[:5], "config": dump_config(user) if user else None}}
            if problems:
                acc.violated(rec, mechanism=classify(problems, user, argv0, argv, compilers), cells=ccells, nontrivial=nontriv, cls=cls)
            else:
                acc.held(cells=ccells, nontrivial=nontriv, cls=cls,
                         sample={"argv0": argv0, "argv": argv, "passes": {p: v for p, v in exp.items()}, "config": dump_config(user)[:600] if user else None})


def classify(problems, user, argv0, argv, compilers):
    """Known-finding predicates."""
    comp, status = ccmodel.resolve(compilers, os.path.basename(argv0))
    kinds = {p["kind"] for p in problems}
    rules = (comp or {}).get("parser", [])
    used = set()
    for a in argv:
        used.add(a.split("=", 1)[0])
    for r in rules:
        if r["action"] == "extend_match" and r.get("dest") == "passes" and not r.get("override") and "default" in r and any(f in used for f in r["flags"]):
            if "second parse of the same command differs" in kinds or "pass set" in kinds:
                return "extend_match-without-override-mutates-shared-default"
        if r["action"] == "store_split" and r.get("dest") == "passes" and "default" in r and len(r["flags"]) > 1 and r["flags"][0] not in used \
                and any(f in used for f in r["flags"][1:]):
            return "store_split-second-flag-spelling-keeps-default-pass"
    return None


def relations(ctx, config, builtin, user, rng, cells):
    """Model-free relations on one configuration."""
    acc = ctx.acc
    compilers = ccmodel.merge(builtin, user)
    for name, d in (user or {}).items():
        # alias == target
        if "alias_of" in d:
            tgt, status = ccmodel.resolve(compilers, name)
            if status != "ok":
                continue
            chain = name
            while "alias_of" in compilers[chain]:
                chain = compilers[chain]["alias_of"]
            argv = gen_argv(rng, compilers, name)
            try:
                a, _ = observe(config, name, argv)
                b, _ = observe(config, "/usr/bin/" + chain, argv)
                if a != b:
                    acc.violated({"input": {"user_config": user, "argv": argv}, "witness": {"kind": "alias differs from target", "alias": name,
                                                                                            "target": chain, "alias_result": str(a)[:300], "target_result": str(b)[:300]}},
                                 cells={"alias==target"}, cls="relation")
                else:
                    acc.held(cells={"alias==target"}, cls="relation")
            except Exception as e:
                acc.violated({"input": {"user_config": user, "argv": argv}, "witness": {"kind": "exception", "observed": f"{type(e).__name__}: {e}"}}, cls="relation")
        elif d.get("options") and name not in builtin:
            # implicit == explicit: compare with a copy of the compiler that has no options
            pass


def implicit_explicit(ctx, config, builtin, user, rng, work):
    acc = ctx.acc
    names = [n for n, d in user.items() if "alias_of" not in d and d.get("options") and n not in builtin]
    if not names:
        return
    name = rng.choice(names)
    compilers = ccmodel.merge(builtin, user)
    argv = gen_argv(rng, compilers, name)
    try:
        a, _ = observe(config, name, argv)
        stripped = json.loads(json.dumps(user))
        opts = stripped[name].pop("options")
        load_user(config, work, stripped)
        b, _ = observe(config, name, argv[:-1] + ["src.c"] + opts)
        load_user(config, work, user)
        if a != b:
            acc.violated({"input": {"user_config": user, "argv": argv}, "witness": {"kind": "implicit options differ from explicit ones", "compiler": name,
                                                                                    "options": opts, "implicit": str(a)[:300], "explicit": str(b)[:300]}},
                         cells={"implicit==explicit"}, cls="relation")
        else:
            acc.held(cells={"implicit==explicit"}, cls="relation")
    except Exception as e:
        acc.violated({"input": {"user_config": user, "argv": argv}, "witness": {"kind": "exception", "observed": f"{type(e).__name__}: {e}"}}, cls="relation")


def builtin_enum():
    """Every subset of documented flags for every built-in compiler name."""
    flagsets = {
        "gcc": [["-fopenmp"]], "g++": [["-fopenmp"]],
        "clang": [["-fopenmp"], ["-fsycl-is-device"]], "clang++": [["-fopenmp"], ["-fsycl-is-device"]],
        "icx": [["-fopenmp"], ["-fsycl"], ["-fsycl-targets=%T"]], "icpx": [["-fopenmp"], ["-fsycl"], ["-fsycl-targets=%T"]],
        "nvcc": [["-fopenmp"], ["--gpu-architecture=%A"], ["--gpu-code=%A"], ["-gencode", "arch=%A1,code=%A"]],
    }
    targets = ["spir64", "spir64_x86_64", "spir64_gen", "spir64_fpga", "nvptx64-nvidia-cuda"]
    archs = ["sm_70", "compute_75", "sm_80", "sm_89", "compute_90"]
    tlists = [",".join(c) for r in (1, 2, 3) for c in itertools.combinations(targets, r)]
    alists = [",".join(c) for r in (1, 2) for c in itertools.combinations(archs, r)] + ["sm_70,sm_75,sm_80"]
    for name, fl in flagsets.items():
        for r in range(len(fl) + 1):
            for sub in itertools.combinations(fl, r):
                variants = [[]]
                for f in sub:
                    new = []
                    for v in variants:
                        if any("%T" in x for x in f):
                            for t in tlists:
                                new.append(v + [x.replace("%T", t) for x in f])
                        elif any("%A" in x for x in f):
                            for a in alists[:: 3] if len(sub) > 2 else alists:
                                new.append(v + [x.replace("%A1", a.split(",")[0]).replace("%A", a) for x in f])
                        else:
                            new.append(v + f)
                    variants = new
                for v in variants:
                    yield name, ["-DU=1"] + v + ["t.cpp"]


E2E_SRC = """cbi_m_e_1;
#ifdef _OPENMP
cbi_m_e_3;
#endif
#if defined(__CUDA_ARCH__) && __CUDA_ARCH__ >= 800
cbi_m_e_6;
#elif defined(__CUDA_ARCH__)
cbi_m_e_8;
#else
cbi_m_e_10;
#endif
#ifdef __SYCL_DEVICE_ONLY__
cbi_m_e_13;
#else
cbi_m_e_15;
#endif
#if defined(__NVCC__) && !defined(SYCL_LANGUAGE_VERSION)
cbi_m_e_18;
#endif
"""


def end_to_end(ctx, config, builtin, rng, work):
    """A line is attributed to a platform iff some pass of some command uses it (gcc per pass is the oracle)."""
    acc = ctx.acc
    src = os.path.join(work, "e2e.cpp")
    with open(src, "w") as f:
        f.write(E2E_SRC)
    load_user(config, work, None)
    cmds = list(builtin_enum())
    n = bounds(ctx.tier)["e2e"]
    for i in range(n):
        name, argv = rng.choice(cmds)
        name2, argv2 = rng.choice(cmds)
        if not ctx.mine(i):
            continue
        entries = [{"file": src, "directory": work, "arguments": [name] + argv[:-1] + ["-c", src]}]
        if i % 4 == 1:
            # the command is started through a launcher: argv[0] is the launcher, which no definition describes; what
            # follows is just its arguments
            launcher = rng.choice(["ccache", "sccache", "distcc", "/usr/bin/icecc", "time"])
            entries[0]["arguments"] = [launcher] + entries[0]["arguments"]
            cells_launcher = True
        else:
            cells_launcher = False
        if i % 3 == 0:
            entries.append({"file": src, "directory": work, "arguments": [name2] + argv2[:-1] + ["-c", src]})
        db = os.path.join(work, "e2e.json")
        with open(db, "w") as f:
            json.dump(entries, f)
        problems = []
        cells = {"e2e:launcher-as-argv0"} if cells_launcher else set()
        try:
            conf = config.load_database(db, work)
            state, _ = cbi.run_find(work, {"p": conf})
            used = cbi.used_lines(state, src, "p")
            live = set()
            for e in entries:
                exp, status = ccmodel.expected(builtin, e["arguments"][0], e["arguments"][1:])
                for p, v in exp.items():
                    defs = v["cmd"][0] + v["extra"][0]
                    g = gcc.preprocess(src, defines=defs)
                    if not g["ok"]:
                        raise RuntimeError("gcc: " + g["stderr"][:200])
                    live |= set(g["markers"])
                    if "_OPENMP" in defs:
                        cells.add("e2e:_OPENMP")
                    if any(d.startswith("__CUDA_ARCH__") for d in defs):
                        cells.add("e2e:__CUDA_ARCH__")
                    if "__SYCL_DEVICE_ONLY__" in defs:
                        cells.add("e2e:__SYCL_DEVICE_ONLY__")
            want = {int(m.rsplit("_", 1)[1]) for m in live}
            got = {ln for ln in used if E2E_SRC.split("\n")[ln - 1].startswith("cbi_m_")}
            if want != got:
                problems.append({"kind": "end-to-end attribution over passes", "expected": sorted(want), "observed": sorted(got)})
        except Exception as e:
            problems.append({"kind": "exception", "observed": f"{type(e).__name__}: {e}"})
        if problems:
            acc.violated({"input": {"entries": entries}, "witness": {"entries": entries, "problems": problems}}, cells=cells, cls="e2e")
        else:
            acc.held(cells=cells, cls="e2e", nontrivial={"entries": entries})


E2E_USER = {
    "occ": {"options": ["-DOCC=1"],
            "parser": [{"flags": ["-foffload", "--offload"], "action": "store_split", "sep": ",", "format": "off-$value", "dest": "passes"},
                       {"flags": ["-fextra"], "action": "append_const", "dest": "modes", "const": "extra"}],
            "modes": [{"name": "extra", "include_files": ["m.h"], "include_paths": ["modeinc"]}],
            # off-a / off-b differ only in their include files; off-d / off-e only in their search directory, which
            # holds a header of the same name
            "passes": [{"name": "off-a", "include_files": ["a.h"]}, {"name": "off-b", "include_files": ["b.h"]},
                       {"name": "off-c", "include_files": ["b.h"], "defines": ["TARGET_C"]},
                       {"name": "off-d", "defines": ["WITH_PH"], "include_paths": ["pa"]},
                       {"name": "off-e", "defines": ["WITH_PH"], "include_paths": ["pb"]},
                       # a declared pass that happens to be called like the built-in default pass declares nothing about it
                       {"name": "default", "defines": ["HOST_PASS"]}]},
}
# the same compiler with a pass-selecting flag among its IMPLICIT options: it behaves as if appended to the command
# line, so it replaces what an explicit -foffload= selected
E2E_USER["occ2"] = dict(E2E_USER["occ"], options=["-DOCC=1", "-foffload=c"])
E2E_FLAT_SRC = "#include \"perpass.h\"\ncbi_m_flat_2;\ncbi_m_flat_3;\n"
E2E_PERPASS_H = "cbi_m_pp_1;\n#ifdef TARGET_A\ncbi_m_pp_3;\n#endif\n#ifdef TARGET_B\ncbi_m_pp_6;\n#endif\n#ifdef TARGET_C\ncbi_m_pp_9;\n#endif\n#ifdef PH_B\ncbi_m_pp_12;\n#endif\n"
E2E_USER_SRC = """cbi_m_u_1;
#ifdef TARGET_A
cbi_m_u_3;
#endif
#ifdef TARGET_B
cbi_m_u_6;
#endif
#if defined(TARGET_C) && defined(TARGET_B)
cbi_m_u_9;
#endif
#ifdef FROM_MODE
cbi_m_u_12;
#include <deep.h>
#endif
#if !defined(TARGET_A) && !defined(TARGET_B)
cbi_m_u_16;
#endif
#ifdef WITH_PH
#include <ph.h>
#endif
#ifdef PH_A
cbi_m_u_22;
#endif
#ifdef PH_B
cbi_m_u_25;
#endif
"""
assert all(ln == "cbi_m_u_%d;" % i for i, ln in enumerate(E2E_USER_SRC.split("\n"), 1) if ln.startswith("cbi_m_u_"))


def end_to_end_user(ctx, config, builtin, work):
    """Passes / modes that differ only in include files or include paths: every pass must be preprocessed."""
    acc = ctx.acc
    d = os.path.join(work, "e2eu")
    for sub in ("modeinc", "pa", "pb"):
        os.makedirs(os.path.join(d, sub), exist_ok=True)
    for name, text in (("a.h", "#define TARGET_A 1\n"), ("b.h", "#define TARGET_B 1\n"), ("m.h", "#define FROM_MODE 1\n"),
                       ("modeinc/deep.h", "cbi_m_deep_1;\n"), ("pa/ph.h", "#define PH_A 1\n"), ("pb/ph.h", "#define PH_B 1\n"),
                       ("src.c", E2E_USER_SRC), ("flat.c", E2E_FLAT_SRC), ("perpass.h", E2E_PERPASS_H)):
        with open(os.path.join(d, name), "w") as f:
            f.write(text)
    load_user(config, d, E2E_USER)
    compilers = ccmodel.merge(builtin, E2E_USER)
    src = os.path.join(d, "src.c")
    cmds = [["occ"], ["occ", "-foffload=a,b"], ["occ", "--offload=b"], ["occ", "-foffload=a", "-fextra"], ["occ", "-foffload=c,b"],
            ["occ", "-fextra"], ["occ", "-foffload=b,a", "-DX"], ["occ", "-foffload=d,e"], ["occ", "-foffload=e,d"],
            ["occ", "-foffload=a,d"], ["occ", "--offload=e", "-fextra"],
            # the same pass-selecting flag twice: the last one decides (store semantics), also across its two spellings
            ["occ", "-foffload=a", "-foffload=b"], ["occ", "-foffload=a,b", "--offload=c"], ["occ", "--offload=d", "-foffload=e", "-fextra"],
            ["occ", "-foffload=b", "-foffload=b,a", "-foffload=a"],
            # ... and when it is also an implicit option of the compiler
            ["occ2"], ["occ2", "-foffload=a"], ["occ2", "--offload=a,b", "-fextra"]]
    # a source file WITHOUT any conditional that includes a header whose lines depend on the pass: every selected pass
    # has to be preprocessed although the first one already used every line of the source file itself
    flat = os.path.join(d, "flat.c")
    cmds = [(c, src) for c in cmds] + [(c, flat) for c in (["occ", "-foffload=a,b"], ["occ", "-foffload=b,a,c"], ["occ", "-foffload=e,a"], ["occ2", "-foffload=a"], ["occ"])]
    texts = {src: E2E_USER_SRC, flat: E2E_FLAT_SRC, os.path.join(d, "perpass.h"): E2E_PERPASS_H}
    for i, (cmd, src) in enumerate(cmds):
        if not ctx.mine(i):
            continue
        entries = [{"file": src, "directory": d, "arguments": cmd + ["-c", src]}]
        db = os.path.join(d, "db.json")
        with open(db, "w") as f:
            json.dump(entries, f)
        problems = []
        try:
            conf = config.load_database(db, d)
            state, _ = cbi.run_find(d, {"p": conf})
            used = cbi.used_lines(state, src, "p")
            exp, status = ccmodel.expected(compilers, cmd[0], cmd[1:] + ["-c", src])
            live = set()
            for p_, v in exp.items():
                incs = v["cmd"][2] + v["extra"][2]
                paths = [("I", os.path.join(d, x)) for x in v["cmd"][1] + v["extra"][1]]
                g = gcc.preprocess(src, defines=v["cmd"][0] + v["extra"][0], search=paths, includes=incs, cwd=d)
                if not g["ok"]:
                    raise RuntimeError("gcc: " + g["stderr"][:200])
                live |= set(g["markers"])
            if src == flat:
                want = {m for m in live if m.startswith(("cbi_m_flat_", "cbi_m_pp_"))}
                got = set()
                for path_, text_ in texts.items():
                    if path_ != os.path.join(d, "src.c") and state.get_tree(path_) is not None:
                        ls_ = text_.split("\n")
                        got |= {ls_[ln - 1].rstrip(";") for ln in cbi.used_lines(state, path_, "p") if ls_[ln - 1].startswith("cbi_m_")}
            else:
                want = {int(m.rsplit("_", 1)[1]) for m in live if m.startswith("cbi_m_u_")}
                got = {ln for ln in used if E2E_USER_SRC.split("\n")[ln - 1].startswith("cbi_m_u_")}
            if want != got:
                problems.append({"kind": "end-to-end attribution over passes (include files / paths)", "command": cmd, "expected": sorted(want), "observed": sorted(got)})
        except Exception as e:
            problems.append({"kind": "exception", "command": cmd, "observed": f"{type(e).__name__}: {e}"})
        if problems:
            acc.violated({"input": {"entries": entries}, "witness": {"entries": entries, "problems": problems}}, cells={"e2e:passes-differ-in-include-files"}, cls="e2e")
        else:
            acc.held(cells={"e2e:passes-differ-in-include-files"} | ({"e2e:passes-differ-in-include-paths"} if "d,e" in str(cmd) or "e,d" in str(cmd) else set())
                     | ({"e2e:conditional-free-source-with-pass-dependent-header"} if src == flat else set())
                     | ({"e2e:pass-selecting-flag-given-twice"} if sum(1 for a_ in cmd if "offload" in a_) >= 2 else set())
                     | ({"e2e:pass-selecting-flag-among-implicit-options"} if cmd[0] == "occ2" else set()),
                     cls="e2e", nontrivial={"entries": entries})


def run_shard(ctx):
    from codebasin import config
    from cbimon.core import REPO
    b = bounds(ctx.tier)
    acc = ctx.acc
    builtin = ccmodel.load_builtin(REPO)
    work = os.path.join(ctx.scratch, "c12")
    os.makedirs(work, exist_ok=True)
    old = os.getcwd()
    os.environ["CBI_ENVVAR"] = "/opt/elsewhere"
    try:
        # E1: built-in files, every flag subset
        load_user(config, work, None)
        acc.hook("_load_compilers")
        cmds = list(builtin_enum())
        # single-dash options that are strict prefixes of a modelled flag are other options (no abbreviations), and a
        # flag that takes no value may still be written flag=value by a real compiler (-fopenmp=libomp)
        cmds += [("gcc", ["-f", "-DX", "a.c"]), ("gcc", ["-fopen", "a.c"]), ("g++", ["-fopenm", "-DY=1", "a.c"]), ("clang++", ["-fsycl", "-DX", "a.c"]),
                 ("clang", ["-fsycl-is", "a.c"]), ("nvcc", ["-fopenm", "k.cu"]), ("icpx", ["-fsyc", "a.cpp"]), ("icx", ["-fsycl-target", "a.c"]),
                 ("clang", ["-fopenmp=libomp", "-DX", "a.c"]), ("gcc", ["-fopenmp=libgomp", "a.c"]), ("clang++", ["-fopenmp=libiomp5", "-fsycl-is-device", "a.cpp"])]
        mine = [c for i, c in enumerate(cmds) if ctx.mine(i)]
        for k in range(0, len(mine), 12):
            names = {c[0] for c in mine[k:k + 12]}
            cells = {"builtin:" + {"g++": "gcc", "clang++": "clang", "icpx": "icx"}.get(n, n) for n in names}
            check_commands(ctx, config, builtin, None, mine[k:k + 12], cells, "E-builtin")
        # E2: all alias graphs over <=4 names (functional graphs: each name aliases another name, a real compiler, or nothing)
        names = ["n0", "n1", "n2", "n3"]
        targets = names + ["gcc", "ghost"]
        idx = 0
        for choice in itertools.product(range(len(targets) + 1), repeat=3):
            idx += 1
            if not ctx.mine(idx):
                continue
            user = {}
            for nm, c in zip(names, choice):
                if c == len(targets):
                    user[nm] = {"options": ["-DREAL_" + nm.upper()]}
                else:
                    user[nm] = {"alias_of": targets[c]}
            user["n3"] = {"options": ["-DREAL_N3"]}
            load_user(config, work, user)
            acc.hook("_load_compilers")
            compilers = ccmodel.merge(builtin, user)
            cells = set()
            for nm in names[:3]:
                d, st = ccmodel.resolve(compilers, nm)
                if st == "ok" and "alias_of" in user[nm]:
                    n = 0
                    cur = nm
                    while "alias_of" in compilers[cur]:
                        cur = compilers[cur]["alias_of"]
                        n += 1
                    cells.add(f"alias:chain-{min(n, 3)}")
                if "alias_of" in user[nm] and user[nm]["alias_of"] == nm:
                    cells.add("alias:self")
            check_commands(ctx, config, builtin, user, [(nm, ["-DX", "-fopenmp", "a.c"]) for nm in names[:3]], cells, "E-alias")
        # R: generated configurations
        rng = ctx.rng("configs")
        for i in range(b["random_configs"]):
            user, cells = gen_config(rng)
            seed = rng.random()
            if not ctx.mine(i):
                continue
            import random as _r
            r2 = _r.Random(seed)
            lev = load_user(config, work, user)
            acc.hook("_load_compilers")
            if lev.errors():
                acc.inconc("generated .cbi/config rejected: " + str(lev.errors()[:2])[:300])
                continue
            compilers = ccmodel.merge(builtin, user)
            names = [n_ for n_ in user if not n_.startswith("ln")] + ["gcc", "nvcc", "icpx", "unknowncc", "cc0.exe", "gcc.real", "nvcc-12.4"]
            cmds = []
            for _ in range(b["cmds_per_config"]):
                nm = r2.choice(names)
                cmds.append((r2.choice(["", "/usr/bin/", "../bin/"]) + nm, gen_argv(r2, compilers, nm)))
            if i % 5 == 0:
                # argv[0] that exists on disk as a symbolic link to a file named like a known compiler: still recognised
                # by its own base name only
                bindir = os.path.join(work, "bin")
                os.makedirs(bindir, exist_ok=True)
                for real_, link_ in (("gcc", "mycc"), ("nvcc", "unknowncc"), ("cc0", "wrapped-cc")):
                    open(os.path.join(bindir, real_), "w").close()
                    if not os.path.lexists(os.path.join(bindir, link_)):
                        os.symlink(real_, os.path.join(bindir, link_))
                    cmds.append((os.path.join(bindir, link_), gen_argv(r2, compilers, link_) + ["-fopenmp"]))
                cells.add("argv0:symlink-to-known-compiler")
            for nm in user:
                # every dotted name and both ends / the middle of a long alias chain are exercised
                if "." in nm or (nm.startswith("ln") and nm in ("ln0", "ln1", "ln2", "ln9")):
                    cmds.append((r2.choice(["", "/opt/x.y/bin/"]) + nm, gen_argv(r2, compilers, nm)))
            if ABBREV_SEEN[0]:
                cells.add("argv:strict-prefix-of-configured-flag")
                ABBREV_SEEN[0] = 0
            cmds.append(("nvcc", ["--gpu-arch=sm_80", "--gpu-architectur", "sm_90", "k.cu"]))     # not abbreviations of --gpu-architecture
            # tokens that mean something to argparse itself but are just unknown arguments of a compile command: a response
            # file that is not there (CMake/Ninja emit @CMakeFiles/x.dir/includes_CXX.rsp), a lone `@`
            cmds.append(("g++", ["@CMakeFiles/x.dir/includes_CXX.rsp", "-DX=1", "-I", "inc", "src.cpp"]))
            cmds.append(("nvcc", ["-DY", "@objects.rsp", "@", "k.cu"]))
            cells.add("argv:response-file-token")
            check_commands(ctx, config, builtin, user, cmds, cells, "R")
            relations(ctx, config, builtin, user, r2, cells)
            implicit_explicit(ctx, config, builtin, user, r2, work)
        end_to_end(ctx, config, builtin, ctx.rng("e2e"), work)
        end_to_end_user(ctx, config, builtin, work)
    finally:
        os.chdir(old)
        try:
            config._load_compilers()
        except Exception:
            pass


def replay(record, ctx):
    return {"verdict": "unknown", "note": "re-run ./check C12; the witness holds the .cbi/config text and the command line"}
