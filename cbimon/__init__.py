"""cbimon -- runtime monitors for intel/code-base-investigator (see /verif/DESIGN.md)."""
