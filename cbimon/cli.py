"""Run the real CBI command-line front ends (through cbimon.launch) and parse their output back."""

import json
import os
import re
import subprocess

from cbimon import core


def run(tool, args, cwd, launch=None, hashseed="0", timeout=300, extra_env=None):
    env = core.worker_env(extra_env)
    env["PYTHONHASHSEED"] = str(hashseed)
    env["CBIMON_LAUNCH"] = json.dumps(launch or {})
    env["COLUMNS"] = "200"
    p = subprocess.run([core.PY, "-m", "cbimon.launch", tool] + list(args), cwd=cwd, env=env,
                       capture_output=True, text=True, timeout=timeout)
    return p.returncode, p.stdout, p.stderr


def parse_summary(stdout):
    """Summary report -> dict(rows={frozenset: (count, pct_str)}, metrics={...}, total=int)."""
    rows = {}
    metrics = {}
    order = []
    for ln in stdout.splitlines():
        m = re.match(r"^[│|]\s*(\{.*\})\s*[│|]\s*(\d+)\s*[│|]\s*([0-9.]+|nan)\s*[│|]\s*$", ln)
        if m:
            names = m.group(1).strip()[1:-1].strip()
            key = frozenset(n.strip() for n in names.split(",")) if names else frozenset()
            rows[key] = (int(m.group(2)), m.group(3))
            order.append(key)
            continue
        m = re.match(r"^(Code Divergence|Coverage \(%\)|Avg\. Coverage \(%\)|Total SLOC): (.*)$", ln)
        if m:
            metrics[m.group(1)] = m.group(2).strip()
    return {"rows": rows, "metrics": metrics, "order": order}


def parse_distance_matrix(stdout):
    """Clustering report -> (platform names, {(p,q): 'x.xx'})."""
    lines = stdout.splitlines()
    try:
        start = next(i for i, ln in enumerate(lines) if ln.startswith("Distance Matrix"))
    except StopIteration:
        return None, {}
    header = None
    cells = {}
    for ln in lines[start + 1:]:
        if not ln.strip().startswith(("│", "|", "┌", "├", "└", "+")):
            if header is not None:
                break
            continue
        if not ln.strip().startswith(("│", "|")):
            continue
        parts = [p.strip() for p in re.split(r"[│|]", ln.strip())[1:-1]]
        if header is None:
            header = parts[1:]
            continue
        name = parts[0]
        for q, v in zip(header, parts[1:]):
            cells[(name, q)] = v
    return header, cells


def parse_duplicates(stdout):
    """Duplicates report -> list of sets of path strings."""
    groups = []
    cur = None
    in_dup = False
    for ln in stdout.splitlines():
        if ln.strip() == "Duplicates":
            in_dup = True
            continue
        if not in_dup:
            continue
        if re.match(r"^Match \d+:", ln):
            cur = set()
            groups.append(cur)
        elif ln.startswith("- ") and cur is not None:
            cur.add(ln[2:])
    return groups


def parse_tree(stdout):
    """cbi-tree output -> list of rows dict(depth, name, platforms, sloc, cov, avg, is_dir, link)."""
    rows = []
    legend = {}
    for ln in stdout.splitlines():
        m = re.match(r"^([A-Z]): (.*)$", ln)
        if m and not rows:
            legend[m.group(1)] = m.group(2)
            continue
        m = re.match(r"^\[([A-Z-]*) \| *([0-9.kMG*]+) \| *([0-9.]+|nan) \| *([0-9.]+|nan)\] (.*)$", ln)
        if not m:
            continue
        rest = m.group(5)
        # prefix made of '|', ' ', '\\', '-', 'o' ... then the name
        mm = re.match(r"^((?:[|\\ ] )*)([|\\]?)(-?[-o]) (.*)$", rest)
        if not mm:
            continue
        prefix, conn, stub, name = mm.groups()
        depth = 0 if not conn and not prefix else len(prefix) // 2 + 1
        link = None
        if " -> " in name:
            name, link = name.split(" -> ", 1)
        rows.append({"depth": depth, "name": name, "platforms": m.group(1), "sloc": m.group(2), "cov": m.group(3),
                     "avg": m.group(4), "is_dir": stub.endswith("o"), "link": link})
    return legend, rows
