"""Helpers that drive the real CBI code in-process and read back its observable state."""

import os
import warnings

warnings.simplefilter("ignore", DeprecationWarning)


def entry(path, defines=(), include_paths=(), include_files=()):
    return {"file": path, "defines": list(defines), "include_paths": list(include_paths),
            "include_files": list(include_files)}


def per_line(state, fn):
    """{line: frozenset(platforms)} for every counted line of one parsed file, plus anomalies."""
    from codebasin.preprocessor import CodeNode
    tree = state.get_tree(fn)
    amap = state.get_map(fn)
    lines = {}
    dup = []
    for node in tree.walk():
        if isinstance(node, CodeNode):
            ps = frozenset(amap[node])
            for ln in node.lines:
                if ln in lines:
                    dup.append(ln)
                    ps2 = lines[ln] | ps
                    lines[ln] = ps2
                else:
                    lines[ln] = ps
    return lines, dup


def attribution(state):
    """{realpath: {line: sorted platforms}} for all parsed files."""
    out = {}
    for fn in state.get_filenames():
        lines, _ = per_line(state, fn)
        out[fn] = lines
    return out


def used_lines(state, fn, platform):
    lines, _ = per_line(state, fn)
    return {ln for ln, ps in lines.items() if platform in ps}


def run_find(root, configuration, exclude_patterns=None, summarize_only=False):
    from codebasin import CodeBase, finder
    cb = CodeBase(root, exclude_patterns=list(exclude_patterns or []))
    state = finder.find(root, cb, configuration, summarize_only=summarize_only)
    return state, cb


def write_tree(root, files, links=None):
    """files: {relpath: text}; links: {relpath: target} created after files."""
    for rel, text in files.items():
        p = os.path.join(root, rel)
        os.makedirs(os.path.dirname(p), exist_ok=True)
        with open(p, "w", newline="") as f:
            f.write(text)
    for rel, target in (links or {}).items():
        p = os.path.join(root, rel)
        os.makedirs(os.path.dirname(p), exist_ok=True)
        os.symlink(target, p)
