"""
cbimon.core -- tier/seed handling, shard workers, aggregation, verdicts,
evidence, replay files and the known-findings registry.

Execution model (DESIGN.md section 2): the parent starts up to 16 worker
interpreters (`python -m cbimon.worker`), each of which imports the real code
from $CBI_REPO (default /repo) with the monitors of cbimon.hooks installed,
runs its share of the property's workload, checks every recorded execution
against the oracle and writes one shard summary.  The parent merges the
summaries, classifies violations against /verif/known_findings.json, writes
/verif/evidence/<id>.json and decides the three-valued verdict.
"""

from __future__ import annotations

import collections
import hashlib
import importlib
import json
import os
import random
import shutil
import subprocess
import sys
import tempfile
import time

VERIF = os.path.dirname(os.path.dirname(os.path.abspath(__file__)))
REPO = os.environ.get("CBI_REPO", "/repo")
PY = os.environ.get("CBI_PYTHON", "/venv/bin/python")
EVIDENCE_DIR = os.path.join(VERIF, "evidence")
REPLAY_DIR = os.path.join(EVIDENCE_DIR, "replay")
KNOWN_FILE = os.path.join(VERIF, "known_findings.json")
GUARD = "CBI_VERIF"

MAX_WITNESS_PER_MECH = 3
MAX_UNCLASSIFIED = 25


def tier_from_env(default="quick"):
    t = os.environ.get("VERIF_TIER", default)
    return t if t in ("quick", "thorough") else default


def seed_from_env():
    try:
        return int(os.environ.get("VERIF_SEED", "0"))
    except ValueError:
        return 0


def scratch_base():
    for base in ("/dev/shm", tempfile.gettempdir()):
        if os.path.isdir(base) and os.access(base, os.W_OK):
            return base
    return tempfile.gettempdir()


def h64(obj) -> int:
    """64-bit hash of a canonical JSON rendering (distinctness counter)."""
    if not isinstance(obj, (str, bytes)):
        obj = json.dumps(obj, sort_keys=True, default=str)
    if isinstance(obj, str):
        obj = obj.encode("utf-8", "surrogateescape")
    return int.from_bytes(hashlib.blake2b(obj, digest_size=8).digest(), "big")


def worker_env(extra=None):
    env = dict(os.environ)
    env["PYTHONPATH"] = os.pathsep.join([VERIF, REPO])
    env.setdefault("PYTHONHASHSEED", "0")
    env[GUARD] = "1"
    env["CBI_REPO"] = REPO
    env["MPLCONFIGDIR"] = os.path.join(scratch_base(), "cbimon-mpl")
    env["PYTHONWARNINGS"] = "ignore::DeprecationWarning"
    env["LC_ALL"] = "C.UTF-8"
    env.pop("COLUMNS", None)
    if extra:
        env.update(extra)
    return env


class Acc:
    """Per-shard accumulator of checked executions."""

    def __init__(self, prop):
        self.prop = prop
        self.verdicts = collections.Counter()
        self.cells = collections.Counter()
        self.hooks = collections.Counter()
        self.classes = collections.Counter()
        self.hashes = set()
        self.samples = []
        self.violations = {}  # mechanism -> [records]
        self.violation_counts = collections.Counter()
        self.inconclusive = []
        self.oracle_disagreements = []
        self.extra = collections.Counter()
        self.notes = {}

    # -- recording ---------------------------------------------------------
    def held(self, case=None, cells=(), nontrivial=None, sample=None, cls=None):
        self.verdicts["held"] += 1
        self._common(cells, nontrivial, cls)
        if sample is not None and nontrivial is not None and len(self.samples) < 3:
            self.samples.append(sample)

    def excluded(self, why="premise", cls=None):
        self.verdicts["excluded"] += 1
        self.extra["excluded:" + why] += 1
        if cls:
            self.classes[cls] += 1

    def violated(self, record, mechanism=None, cells=(), nontrivial=None, cls=None):
        """record: JSON-able dict with the full witness (input, expected, observed)."""
        self.verdicts["violated"] += 1
        self._common(cells, nontrivial, cls)
        key = mechanism or ""
        self.violation_counts[key] += 1
        lst = self.violations.setdefault(key, [])
        cap = MAX_WITNESS_PER_MECH if mechanism else MAX_UNCLASSIFIED
        if len(lst) < cap:
            record = dict(record)
            record["mechanism"] = mechanism
            lst.append(record)

    def inconc(self, reason, record=None):
        self.verdicts["inconclusive"] += 1
        if len(self.inconclusive) < 10:
            self.inconclusive.append({"reason": reason, "record": record})

    def oracle_disagreement(self, record):
        self.verdicts["inconclusive"] += 1
        if len(self.oracle_disagreements) < 10:
            self.oracle_disagreements.append(record)

    def _common(self, cells, nontrivial, cls):
        for c in cells:
            self.cells[c] += 1
        if nontrivial is not None:
            self.hashes.add(h64(nontrivial))
        if cls:
            self.classes[cls] += 1

    def hook(self, name, n=1):
        self.hooks[name] += n

    # -- serialisation -----------------------------------------------------
    def dump(self, path):
        out = {
            "verdicts": dict(self.verdicts),
            "cells": dict(self.cells),
            "hooks": dict(self.hooks),
            "classes": dict(self.classes),
            "hashes": sorted(self.hashes),
            "samples": self.samples,
            "violations": self.violations,
            "violation_counts": dict(self.violation_counts),
            "inconclusive": self.inconclusive,
            "oracle_disagreements": self.oracle_disagreements,
            "extra": dict(self.extra),
            "notes": self.notes,
        }
        tmp = path + ".tmp"
        with open(tmp, "w") as f:
            json.dump(out, f, default=str)
        os.replace(tmp, path)


class Ctx:
    """What a property module's run_shard() receives."""

    def __init__(self, prop, shard, nshards, tier, seed, scratch):
        self.prop = prop
        self.shard = shard
        self.nshards = nshards
        self.tier = tier
        self.seed = seed
        self.scratch = scratch
        self.acc = Acc(prop)
        self.deadline = time.time() + float(os.environ.get("CBIMON_SHARD_BUDGET", "1e9"))

    def rng(self, stream=""):
        """Deterministic RNG for (seed, stream); identical in every shard."""
        return random.Random(f"{self.prop}/{self.seed}/{stream}")

    def mine(self, index):
        return index % self.nshards == self.shard

    def subdir(self, name):
        p = os.path.join(self.scratch, name)
        os.makedirs(p, exist_ok=True)
        return p

    quick = property(lambda self: self.tier == "quick")


def load_prop(prop):
    return importlib.import_module(f"cbimon.props.{prop.lower()}")


def load_known():
    try:
        with open(KNOWN_FILE) as f:
            data = json.load(f)
    except FileNotFoundError:
        return {}
    known = {}
    for e in data.get("findings", []):
        if e.get("status", "open") == "open":
            known[(e["property"], e["mechanism"])] = e
    return known


def run_property(prop, tier, seed, replay=None):
    mod = load_prop(prop)
    if replay:
        return run_replay(mod, prop, replay)
    t0 = time.time()
    nshards = int(os.environ.get("CBIMON_SHARDS", str(min(16, os.cpu_count() or 4))))
    nshards = max(1, min(nshards, getattr(mod, "MAX_SHARDS", 16)))
    base = tempfile.mkdtemp(prefix=f"cbimon-{prop}-", dir=scratch_base())
    timeout = float(os.environ.get("CBIMON_TIMEOUT", "0")) or (
        getattr(mod, "TIMEOUT", {"quick": 900, "thorough": 7200})[tier]
    )
    procs = []
    inconclusive = []
    shard_results = []
    try:
        for i in range(nshards):
            out = os.path.join(base, f"shard{i}.json")
            sdir = os.path.join(base, f"s{i}")
            os.makedirs(sdir)
            cmd = [PY, "-X", "faulthandler", "-m", "cbimon.worker", prop, str(i),
                   str(nshards), tier, str(seed), out, sdir]
            logf = open(os.path.join(base, f"shard{i}.log"), "w")
            p = subprocess.Popen(cmd, env=worker_env(getattr(mod, "ENV", None)),
                                 stdout=logf, stderr=subprocess.STDOUT, cwd=sdir)
            procs.append((i, p, out, logf))
        deadline = t0 + timeout
        for i, p, out, logf in procs:
            try:
                rc = p.wait(timeout=max(1.0, deadline - time.time()))
            except subprocess.TimeoutExpired:
                p.kill()
                p.wait()
                inconclusive.append(f"watchdog: shard {i} exceeded {timeout:.0f}s")
                rc = None
            logf.close()
            if rc == 0 and os.path.exists(out):
                with open(out) as f:
                    shard_results.append(json.load(f))
            elif rc is not None:
                with open(os.path.join(base, f"shard{i}.log")) as f:
                    tail = f.read()[-3000:]
                inconclusive.append(f"worker crash: shard {i} rc={rc}: {tail}")
        return finish(mod, prop, tier, seed, shard_results, inconclusive, t0, nshards)
    finally:
        for _, p, _, _ in procs:
            if p.poll() is None:
                p.kill()
        shutil.rmtree(base, ignore_errors=True)


def merge(shard_results):
    m = {
        "verdicts": collections.Counter(), "cells": collections.Counter(),
        "hooks": collections.Counter(), "classes": collections.Counter(),
        "hashes": set(), "samples": [], "violations": {},
        "violation_counts": collections.Counter(), "inconclusive": [],
        "oracle_disagreements": [], "extra": collections.Counter(), "notes": {},
    }
    for r in shard_results:
        for k in ("verdicts", "cells", "hooks", "classes", "violation_counts", "extra"):
            m[k].update(r.get(k, {}))
        m["hashes"].update(r.get("hashes", []))
        m["samples"].extend(r.get("samples", []))
        for mech, recs in r.get("violations", {}).items():
            m["violations"].setdefault(mech, []).extend(recs)
        m["inconclusive"].extend(r.get("inconclusive", []))
        m["oracle_disagreements"].extend(r.get("oracle_disagreements", []))
        for k, v in r.get("notes", {}).items():
            m["notes"].setdefault(k, v)
    return m


def write_replay(prop, record):
    os.makedirs(REPLAY_DIR, exist_ok=True)
    digest = hashlib.sha1(json.dumps(record, sort_keys=True, default=str).encode()).hexdigest()[:12]
    path = os.path.join(REPLAY_DIR, f"{prop}-{digest}.json")
    with open(path, "w") as f:
        json.dump(record, f, indent=1, default=str)
    return path


def finish(mod, prop, tier, seed, shard_results, inconclusive, t0, nshards):
    m = merge(shard_results)
    known = load_known()
    inconclusive = list(inconclusive)
    for e in m["inconclusive"]:
        inconclusive.append(e["reason"] if isinstance(e, dict) else str(e))
    for e in m["oracle_disagreements"]:
        inconclusive.append("ORACLE-DISAGREEMENT " + json.dumps(e, default=str)[:600])

    # non-vacuity cells
    required = list(getattr(mod, "required_cells", lambda tier: [])(tier))
    missing = [c for c in required if m["cells"].get(c, 0) == 0]
    if missing and shard_results:
        inconclusive.append("non-vacuity cells never observed: " + ", ".join(missing[:12]))
    required_hooks = list(getattr(mod, "REQUIRED_HOOKS", []))
    for hname in required_hooks:
        if m["hooks"].get(hname, 0) == 0 and shard_results:
            inconclusive.append(f"deciding hook {hname} was never reached")
    post = getattr(mod, "post_check", None)
    if post and shard_results:
        for reason in post(m, tier) or []:
            inconclusive.append(reason)

    lines = []
    known_seen = collections.Counter()
    new_violations = []
    for mech, recs in m["violations"].items():
        n = m["violation_counts"].get(mech, len(recs))
        if mech and (prop, mech) in known:
            known_seen[mech] = n
            what = known[(prop, mech)].get("what", mech)
            wit = json.dumps(recs[0].get("witness", recs[0].get("input", "")), default=str)
            if len(wit) > 160:
                wit = wit[:157] + "..."
            lines.append(f"KNOWN-FINDING: property={prop} {mech}: {what} [{n} cases; e.g. {wit}]")
        else:
            for r in recs:
                new_violations.append(r)
    if os.path.isdir(REPLAY_DIR):
        for fn in os.listdir(REPLAY_DIR):
            if fn.startswith(prop + "-"):
                os.unlink(os.path.join(REPLAY_DIR, fn))
    replay_paths = []
    # unclassified witnesses first, then round-robin over mechanisms
    by_mech = collections.OrderedDict()
    for r in new_violations:
        by_mech.setdefault(r.get("mechanism") or "", []).append(r)
    ordered = list(by_mech.pop("", []))[:MAX_UNCLASSIFIED - min(len(by_mech), 10)]
    while any(by_mech.values()):
        for k in list(by_mech):
            if by_mech[k]:
                ordered.append(by_mech[k].pop(0))
    for r in ordered:
        r = dict(r)
        r.setdefault("prop", prop)
        r.setdefault("tier", tier)
        r.setdefault("seed", seed)
        path = write_replay(prop, r)
        if path in replay_paths:
            continue
        if len(replay_paths) >= MAX_UNCLASSIFIED:
            break
        replay_paths.append(path)
        mech = r.get("mechanism")
        if mech:
            lines.append(f"note: next violation matches mechanism '{mech}', which known_findings.json does not list as open")
        lines.append(f"VIOLATION property={prop} replay={path}")
    n_new = sum(m["violation_counts"].get(mech, len(recs)) for mech, recs in m["violations"].items()
                if not (mech and (prop, mech) in known))

    evaluations = sum(m["verdicts"].values())
    wall = time.time() - t0
    bounds = getattr(mod, "bounds", lambda tier: {})(tier)
    ev = {
        "property_id": prop,
        "tier": tier,
        "seed": seed,
        "level": "exploration",
        "coverage": {
            "evaluations": int(evaluations),
            "distinct_nontrivial": len(m["hashes"]),
            "rule": getattr(mod, "RULE", ""),
            "samples": m["samples"][:5],
            "exhaustive": bool(getattr(mod, "exhaustive", lambda tier: False)(tier)) and not inconclusive,
            "verdicts": dict(m["verdicts"]),
            "cells": dict(sorted(m["cells"].items())),
            "hook_events": dict(sorted(m["hooks"].items())),
            "input_classes": dict(sorted(m["classes"].items())),
            "excluded": {k[9:]: v for k, v in m["extra"].items() if k.startswith("excluded:")},
            "counters": {k: v for k, v in sorted(m["extra"].items()) if not k.startswith("excluded:")},
            "known_findings": dict(known_seen),
            "violation_mechanisms": {(k or "(unclassified)"): v for k, v in m["violation_counts"].items()},
            "new_violations": int(n_new),
            "oracle_disagreements": len(m["oracle_disagreements"]),
            "inconclusive_reasons": inconclusive[:20],
            "bounds": bounds,
            "shards": nshards,
            "notes": m["notes"],
        },
        "assumptions": list(getattr(mod, "ASSUMPTIONS", [])),
        "wall_s": round(wall, 2),
        "violations": int(n_new),
    }
    os.makedirs(EVIDENCE_DIR, exist_ok=True)
    with open(os.path.join(EVIDENCE_DIR, f"{prop}.json"), "w") as f:
        json.dump(ev, f, indent=1, default=str)
        f.write("\n")

    for ln in lines:
        print(ln)
    print(f"{prop} tier={tier} seed={seed}: {evaluations} executions checked "
          f"({dict(m['verdicts'])}), {len(m['hashes'])} distinct non-trivial, "
          f"{len(m['cells'])} cells, {sum(m['hooks'].values())} hook events, {wall:.1f}s")
    if n_new:
        print(f"{prop}: VIOLATED ({n_new} violating executions not covered by known findings)")
        return 1
    if inconclusive:
        for r in inconclusive[:10]:
            print(f"INCONCLUSIVE property={prop} reason={str(r)[:1500]}")
        return 2
    print(f"{prop}: held on everything observed"
          + (f" (known findings seen: {dict(known_seen)})" if known_seen else ""))
    return 0


def run_replay(mod, prop, path):
    with open(path) as f:
        record = json.load(f)
    base = tempfile.mkdtemp(prefix=f"cbimon-{prop}-replay-", dir=scratch_base())
    try:
        cmd = [PY, "-m", "cbimon.worker", "--replay", prop, path, base]
        p = subprocess.run(cmd, env=worker_env(getattr(mod, "ENV", None)), cwd=base)
        return p.returncode
    finally:
        shutil.rmtree(base, ignore_errors=True)


def main(argv=None):
    import argparse
    ap = argparse.ArgumentParser(prog="check")
    ap.add_argument("prop")
    ap.add_argument("--tier", default=None)
    ap.add_argument("--seed", type=int, default=None)
    ap.add_argument("--replay", default=None)
    a = ap.parse_args(argv)
    tier = a.tier or tier_from_env()
    seed = a.seed if a.seed is not None else seed_from_env()
    rc = run_property(a.prop.upper(), tier, seed, a.replay)
    sys.exit(rc)
