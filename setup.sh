#!/bin/sh
# Offline setup: nothing to build (pure Python harness run by /venv/bin/python against /repo's working tree).
# Verifies the tools the monitors rely on and installs the optional contract libraries beside the harness.
set -e
cd "$(dirname "$0")"
for t in gcc gfortran git /venv/bin/python; do command -v "$t" >/dev/null || { echo "missing $t"; exit 1; }; done
/venv/bin/python -c "import codebasin, pathspec, numpy" 2>/dev/null || { echo "codebasin not importable"; exit 1; }
if [ ! -d .deps/icontract ]; then
  /venv/bin/pip install -q --no-index --find-links /opt/veriftools/wheels --target .deps icontract deal >/dev/null 2>&1 || echo "note: icontract/deal not installed (optional)"
fi
mkdir -p evidence
echo "setup ok"
